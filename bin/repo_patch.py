"""Helper used while repairing /repo: apply exact-text replacements (atomically), run the 63 tests, commit.  Not used by checks."""
import subprocess,sys
def patch(edits, msg):
    files={}
    for path, old, new in edits:
        s=files.get(path) or open('/repo/'+path).read()
        assert s.count(old)==1,(path,old[:60],s.count(old))
        files[path]=s.replace(old,new)
    for path,s in files.items():
        open('/repo/'+path,'w').write(s)
    r=subprocess.run("cd /repo && cargo test --offline 2>&1 | grep -E '^test result|FAILED|^error' -A5",shell=True,capture_output=True,text=True).stdout
    if not (r.count('ok.')==3 and 'FAILED' not in r and 'error' not in r):
        print(r); subprocess.run("cd /repo && git checkout -- .",shell=True); sys.exit(1)
    subprocess.run(['git','-C','/repo','commit','-qam',msg],check=True)
    print('committed:',subprocess.run(['git','-C','/repo','log','--format=%h %s','-1'],capture_output=True,text=True).stdout.strip())
