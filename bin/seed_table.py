#!/usr/bin/env python3
"""Prints the markdown table of DESIGN.md §8 from seeded/*/meta.json (maintenance helper, not used by checks)."""
import json, glob, os
def rows():
    out = []
    final = json.load(open('/verif/seeded/FINAL_RERUN.json'))['results']
    for d in sorted(glob.glob('/verif/seeded/*/')):
        ID = os.path.basename(d.rstrip('/'))
        if not os.path.exists(d + 'meta.json'):
            continue
        m = json.load(open(d + 'meta.json'))
        caught = []
        for r in m['checks_run_against_it'] + [x for a in m.get('attempts', []) for x in a['checks_run_against_it']]:
            if r['exit'] == 1 and r['check'] not in caught:
                caught.append(r['check'])
        own = m['breaks_property']
        if final.get(ID, {}).get('exit') == 1 and own not in caught:
            caught.insert(0, own)
        if m.get('obsolete'):
            caught = ['— (obsolete, see below)']
        caught.sort(key=lambda c: (c != own, c))
        rnd = 1 if len(ID) == 3 else {'b': 2, 'c': 3, 'd': 3, 'e': 4, 'f': 4, 'g': 5, 'h': 5, 'i': 6, 'j': 6, 'k': 7, 'l': 7, 'm': 8, 'n': 8}[ID[3]]
        out.append((ID, rnd, own, ','.join(m.get('files_changed', [])), ','.join(caught), 'yes' if m.get('history') else ''))
    return out
if __name__ == '__main__':
    print('| seeded id | round | property | file(s) changed | caught by (quick tier, exit 1) | needed strengthening |')
    print('|---|---|---|---|---|---|')
    R = rows()
    for r in R:
        print('| ' + ' | '.join(str(x) for x in r) + ' |')
    print()
    print(len(R), 'seeds;', sum(1 for r in R if r[5]), 'needed strengthening')
