#!/usr/bin/env python3
"""usage: add_finding.py status property clause when commit what   (maintenance helper; never used by checks)"""
import json,sys
st,prop,clause,when,commit,what=sys.argv[1:7]
d=json.load(open('known_findings.json'))
e={"status":st,"property":prop,"clause":clause,"when":when}
if commit!='-': e["commit"]=commit
e["what"]=(f"fixed: property={prop} {commit} " if st=='fixed' else "")+what
d["findings"].append(e)
json.dump(d,open('known_findings.json','w'),indent=1)
