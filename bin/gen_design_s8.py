#!/usr/bin/env python3
"""Regenerates §8 of DESIGN.md from seeded/*/meta.json and seeded/FINAL_RERUN.json (maintenance helper)."""
import json, glob, os, sys
sys.path.insert(0, '/verif/bin')
from seed_table import rows
R = rows()
final = json.load(open('/verif/seeded/FINAL_RERUN.json'))
metas = {os.path.basename(d.rstrip('/')): json.load(open(d + 'meta.json')) for d in sorted(glob.glob('/verif/seeded/*/')) if os.path.exists(d + 'meta.json')}
def rnd(ID): return 1 if len(ID) == 3 else {'b': 2, 'c': 3, 'd': 3, 'e': 4, 'f': 4, 'g': 5, 'h': 5, 'i': 6, 'j': 6, 'k': 7, 'l': 7, 'm': 8, 'n': 8}[ID[3]]
per_round = {}
for ID, m in metas.items():
    r = rnd(ID)
    t = per_round.setdefault(r, [0, 0])
    t[0] += 1
    if not m.get('history'):
        t[1] += 1
total = len(metas)
first = sum(v[1] for v in per_round.values())
strengthened = total - first
obsolete = [ID for ID, m in metas.items() if m.get('obsolete')]
table = ['| seeded id | round | property | file(s) changed | caught by (quick tier, exit 1) | needed strengthening |', '|---|---|---|---|---|---|'] + ['| ' + ' | '.join(str(x) for x in r) + ' |' for r in R]
hist = [f"* **{ID}** — {m['history']}." for ID, m in sorted(metas.items()) if m.get('history')]
hist += [f"* **{ID}** (caught at the first attempt when it was produced) — {m['obsolete_reason']}." for ID, m in sorted(metas.items()) if m.get('obsolete_reason')]
caught_final = final['caught']
sec = f'''## 8. Seeded changes (detection evidence)

Realistic property-breaking changes were produced by **fresh sub-agents**, each given only the text of
one property (title, statement, anchors) and its own scratch git worktree of /repo (nothing from /verif),
and asked for a change that still compiles, passes the 63 existing tests, needs something specific to
manifest, and comes with a demonstration test.  Eight rounds: 18 changes; 18 with a different emphasis per
property (other sites, "two cooperating conditions", multi-step sequences); 18 agents x 2 changes (A: spread
over two sites that each look fine alone; B: needs a multi-step sequence or a value class no sampling
generator reaches); and again 18 x 2 with the brief "the obvious mutations near the anchors are taken: find
changes that manifest only on a rare-but-legal STRUCTURE (several boxes of a kind, unusual order or nesting,
optional boxes in unusual combinations, boundary values on rarely-large fields) or on a particular SEQUENCE
of public calls"; and a fifth time 18 x 2 with the brief "change a SHARED HELPER or type (box header reader,
skip helpers, fixed-point and four-character-code types, the box-type table) so that only this property
breaks under a stated condition, or make the change manifest for ONE media kind, ONE build profile (with or
without arithmetic overflow checks) or ONE boundary value".  For round 5 the first-attempt column was measured
with the harness exactly as committed before the sub-agents' summaries were read (a scratch worktree of /verif
at fb9be64), then the checks were extended and measured again.  A sixth round (18 x 2) asked for changes that
need the CONJUNCTION of two or three features that are each unremarkable alone, or that sit in an ERROR PATH /
in what is left behind after an error, or in a numeric conversion that is wrong only for particular residues
or when a product crosses a power of two other than 2^32; its first-attempt column was measured before any
of its summaries was acted upon.  A seventh, smaller round (9 properties x 2) described the technique to the
sub-agents in general terms (exhaustive small cases, boundary substitutions, a fixed set of large structured
inputs) and asked for changes that such a tool is likely to MISS because they need LENGTH (a history or table
long in a specific way: the 5462nd entry, more than 255 or 65535 samples in a chunk, the 33rd fragment) or
COORDINATION (three or more fields changed together consistently); 5 of its 18 were caught at the first
attempt — the expected weak spot of bounded exhaustive checking, see §5.  An eighth, small round (one change for each of
the 8 properties with the fewest seeds: C02 C04 C06 C08 C10 C12 C14 C18; ids `…m`) repeated the plain brief and advised
aiming at the region an obvious harness is least likely to exercise (rare box types, rarely used entry points, unusual
combinations, large values, second-and-later calls, error paths); its first-attempt column was measured with the
harness as committed at 3057367, before any extension.  A second batch of round 8 (one change for each of C01 C03 C05 C09
C11 C13 C15 C17; ids `…n`) repeated the round-7 brief (aim at what exhaustive small cases with boundary values MISS: a
particular length, a large-but-not-boundary value, a specific combination, a rarely used entry point): 4 of 8 at the first
attempt (C03n, C05n, C13n, C17n), 4 after general extensions (C01n, C09n, C11n, and C15n at the second try: a lookup memo keyed by chunk offset alone, which
needs two chunks of one track at the same file offset and an earlier lookup 8 samples deep).  Each change was **re-confirmed by `bin/try_seeded.sh`** in a fresh scratch worktree (demo
passes without the patch, fails with it; the existing suite passes with it: 65 = 59 + 4 + 2 tests), stored as
`seeded/<id>/{{patch.diff, demo.rs, notes.md, meta.json}}`, applied to /repo (`git apply`), run against the
quick tier of the relevant checks, and undone (`git checkout -- .`).  None is committed in /repo.  (Round 1
produced the same patch for C02 and C13 — a shared `git stash` between the agents' worktrees swapped two of
them — so there is no `seeded/C13`; `seeded/C02` breaks both and is caught by both.  Later rounds forbade
`git stash`.  Four patches were re-based after later `fix:` commits changed their context; the originals are
kept as `patch.orig.diff`.)

{chr(10).join(table)}

**{caught_final} of {final['total']} are caught by the quick tier of the check of their own property**
(several also by a neighbouring check); `seeded/FINAL_RERUN.json` is the record of the last complete re-run
of all of them against the harness and the /repo tree as committed (`bin/rerun_seeded.sh`).  Those that are
not ({', '.join(obsolete)}) are not (or no longer) valid defects with respect to any property (stopped being reachable or applicable
after a repair of the pinned tree, or changes a value that is not representable): see their entries below.  First-attempt detection per round
(by the check of their own property, before any strengthening): ''' + ', '.join(f"round {r}: {v[1]} of {v[0]}" for r, v in sorted(per_round.items())) + f''' — {first} of {total} in all.  Rounds 3 to 8 were briefed to
produce exactly what the machinery of the earlier rounds would plausibly miss, so their lower rate is the
point of the exercise.  The {strengthened} marked *yes* were missed by the check of their own property as it
stood (some were caught by a neighbour; C15 hit a harness build failure); `meta.json` keeps the earlier
attempts under `attempts`.  They led to these extensions, each of which is general rather than specific to
the seed (no extension mentions a file, function or constant of a seed; each widens an alphabet, a shape
family or an oracle for every box / table / field):

{chr(10).join(hist)}

Genuine defects of the pinned tree that this phase also brought to light (by bounds that were then moved
into the quick tier, by the new families, or by a sub-agent's side remark that was then turned into an
enumerated family): the fragmented `is_sync_sample` division by zero (C09, run lengths (0,0,2); fix
1f0ebd0), the `esds` sub-descriptor length handling (C05, full third-byte sweep; fix 72f86bc), the `trun`
count-sum `expect` (C06 via K6; fix 1e62162), encoding of AudioSpecificConfig frequency index 15 without
the explicit frequency (C05; fix 242152b refuses it), AVC parameter sets longer than 65535 bytes accepted
and written with a wrapped length (C14 length sweep extended past the 16-bit limit; fix fdd3554), and the
`hvcC` / `avcC` readers ignoring their box size, which made opening a 733 KB file with 128 such tracks
read 74.7 MB — quadratic in the file length (C07 scaling shapes; fixes 66fc781, 3f70689).

What the seeds say about the limits (§5): of the {strengthened} misses, most were a *shape that no
baseline / generator contained* (a child order, a box being last in the file, a chain of consistent sizes, a
NUL at the end of a text, a refusal on a known track or of a track, a traf without a run or with several,
sums past 2³², an open-ended mdat, a box at a non-zero stream offset, many tracks x many fragments, a
parameter set of length 0, a uuid box inside a traf, a year text beyond 32 bits).  Nine were not about shapes:
an oracle that accepted too much or looked only at one side (C16b truncation vs floor; C01c "only
unknown-track calls are refused"; C13h durations read back only for mdhd; C05g a typed value compared only
through the library's own two directions, which a consistent change of both keeps in agreement), an
exploration order (C03f lookups only in ascending order), a build profile that was not run (C08g), an
attribution rule of the machinery (C08h: a lazily granted multi-GiB request whose fill ran into the watchdog
was reported by C07 only), and the harness itself being brittle against the change (C15 did not build with a
`!Sync` reader; C16h panicked inside an unguarded enumeration loop).
The guard against the first kind
is the rule "one input per shortcut visible in the code" — which is why the field-substitution
neighbourhoods (E3) are complemented by enumerated shape families, *structured* multi-field deviations
(overrun chains, extreme pairs, reduced pairs), duplicate and scaling shapes, why generators list every flag
*combination* rather than every flag, and why value sources contain the values a "tidy-minded" reader might
special-case (start codes, length-prefixed look-alikes, edge NULs).  The guard against the second kind is
differential: wherever the statement allows it the oracle is "same as the run without the deviation"
(accepted-calls-only mux, compact-header decode, complete-file samples, fresh-reader answers) rather than a
hand-written expectation.  What remains out of reach of every check here is stated in §5: inputs further
from every baseline and family than the explored deviations, histories longer than the depth bounds, and
value classes outside the alphabets — the next seeded change that lives there will be missed until its
shape is added.
'''
d = open('/verif/DESIGN.md').read()
i = d.index('## 8. Seeded changes (detection evidence)')
open('/verif/DESIGN.md', 'w').write(d[:i] + sec)
print('§8 regenerated:', total, 'seeds,', first, 'first-attempt,', strengthened, 'strengthened, final', caught_final, '/', final['total'])
