#!/bin/bash
# usage: bin/rerun_seeded.sh <ID> [checks...]  — re-run quick checks against an already confirmed seeded change
# (applies seeded/<ID>/patch.diff to /repo, runs, undoes it). The previous result moves to meta.history.
set -u
ID="$1"; shift
CHECKS="${*:-${ID:0:3}}"
cd /verif
[ -z "$(git -C /repo status --short)" ] || { echo "/repo not clean"; exit 2; }
# evidence/*.json must describe the unchanged tree: keep it aside while the changed tree is checked
EVSAVE=$(mktemp -d); cp -a evidence/. "$EVSAVE"/ 2>/dev/null
git -C /repo apply /verif/seeded/$ID/patch.diff || { echo "cannot apply to /repo"; exit 2; }
RESULTS=""
for c in $CHECKS; do
  OUT=$(bin/check $c quick 2>&1); EC=$?
  NV=$(echo "$OUT" | grep -c "^VIOLATION")
  CL=$(echo "$OUT" | grep "^VIOLATION" | sed 's/.*replays\/[^/]*\/\(.*\)-[0-9a-f]*\.json/\1/' | sort -u | head -4 | paste -sd,)
  echo "  $ID check $c: exit=$EC violations_lines=$NV clauses=$CL"
  [ "$EC" = 2 ] && echo "$OUT" | tail -5
  RESULTS="$RESULTS{\"check\":\"$c\",\"exit\":$EC,\"violation_lines\":$NV,\"clauses\":\"$CL\"},"
done
git -C /repo checkout -- . ; git -C /repo status --short | head -3
cp -a "$EVSAVE"/. evidence/ 2>/dev/null; rm -rf "$EVSAVE"
[ -n "${NOMETA:-}" ] && exit 0
python3 - "$ID" "[${RESULTS%,}]" <<'PY'
import json,sys
ID,res=sys.argv[1:3]
p=f'/verif/seeded/{ID}/meta.json'
m=json.load(open(p))
if m['checks_run_against_it']:
    m.setdefault('attempts',[]).append({"checks_run_against_it":m['checks_run_against_it'],"note":"earlier attempt, before the checks were strengthened"})
m['checks_run_against_it']=json.loads(res)
json.dump(m,open(p,'w'),indent=1)
PY
