#!/bin/bash
# usage: bin/try_seeded.sh <ID> <src-dir-with patch.diff demo.rs notes.md> [checks...]
# 1. confirms the seeded change in a scratch worktree (suite passes with it; demo fails with it and passes without it)
# 2. stores it under /verif/seeded/<ID>/   3. applies it to /repo, runs the given checks (quick), undoes it.
set -u
ID="$1"; SRC="$2"; shift 2
CHECKS="${*:-$ID}"
WT=/tmp/vfy-$ID
cd /verif
rm -rf "$WT"; git -C /repo worktree prune; git -C /repo worktree add -q "$WT" HEAD || exit 2
cp "$SRC/demo.rs" "$WT/tests/seeded_demo.rs"
( cd "$WT" && cargo test --offline --test seeded_demo >"$WT/demo_without.log" 2>&1 ); DW=$?
( cd "$WT" && git apply "$SRC/patch.diff" ) || { echo "PATCH DOES NOT APPLY"; exit 2; }
( cd "$WT" && cargo test --offline --test seeded_demo >"$WT/demo_with.log" 2>&1 ); DP=$?
mv "$WT/tests/seeded_demo.rs" "$WT/seeded_demo.rs.aside"
( cd "$WT" && cargo test --offline >"$WT/suite_with.log" 2>&1 ); SU=$?
OKLINES=$(grep -c "^test result: ok" "$WT/suite_with.log"); PASSED=$(grep "^test result" "$WT/suite_with.log" | sed 's/.*ok. \([0-9]*\) passed.*/\1/' | paste -sd+ | bc)
echo "confirm $ID: demo_without_change_exit=$DW (want 0) demo_with_change_exit=$DP (want !=0) suite_with_change_exit=$SU (want 0) passed=$PASSED"
CONF="no"; if [ "$DW" = 0 ] && [ "$DP" != 0 ] && [ "$SU" = 0 ] && [ "$PASSED" = 65 ]; then CONF="yes"; fi
git -C /repo worktree remove --force "$WT"
mkdir -p seeded/$ID; cp "$SRC/patch.diff" "$SRC/demo.rs" seeded/$ID/; cp "$SRC/notes.md" seeded/$ID/notes.md 2>/dev/null
RESULTS=""
if [ "$CONF" = yes ] && [ -z "${CONFIRM_ONLY:-}" ]; then
  EVSAVE=$(mktemp -d); cp -a evidence/. "$EVSAVE"/ 2>/dev/null   # evidence must describe the unchanged tree
  git -C /repo apply "$SRC/patch.diff" || { echo "cannot apply to /repo"; exit 2; }
  for c in $CHECKS; do
    OUT=$(bin/check $c quick 2>&1); EC=$?
    NV=$(echo "$OUT" | grep -c "^VIOLATION")
    CL=$(echo "$OUT" | grep "^VIOLATION" | sed 's/.*replays\/[^/]*\/\(.*\)-[0-9a-f]*\.json/\1/' | sort -u | head -4 | paste -sd,)
    echo "  check $c: exit=$EC violations_lines=$NV clauses=$CL"
    RESULTS="$RESULTS{\"check\":\"$c\",\"exit\":$EC,\"violation_lines\":$NV,\"clauses\":\"$CL\"},"
  done
  git -C /repo checkout -- . ; git -C /repo status --short | head -3
  cp -a "$EVSAVE"/. evidence/ 2>/dev/null; rm -rf "$EVSAVE"
fi
python3 - "$ID" "$CONF" "$DW" "$DP" "$SU" "$PASSED" "[${RESULTS%,}]" <<'PY'
import json,sys,os,re
ID,conf,dw,dp,su,passed,res=sys.argv[1:8]
notes=open(f'/verif/seeded/{ID}/notes.md').read() if os.path.exists(f'/verif/seeded/{ID}/notes.md') else ''
meta={"breaks_property":ID[:3],"confirmed":conf=="yes",
 "confirmation":{"demo_without_change_exit":int(dw),"demo_with_change_exit":int(dp),"existing_suite_with_change_exit":int(su),"existing_suite_tests_passed":int(passed or 0),
   "how":"scratch worktree of /repo HEAD: cargo test --offline --test seeded_demo without the patch, then with it; then cargo test --offline (demo moved aside) with the patch"},
 "needs_to_manifest":"see notes.md (written by the sub-agent that produced the change)",
 "checks_run_against_it":json.loads(res),
 "source":"fresh sub-agent given only the property text and its own scratch worktree"}
json.dump(meta,open(f'/verif/seeded/{ID}/meta.json','w'),indent=1)
print("meta written; detected by:",[r['check'] for r in meta['checks_run_against_it'] if r['exit']==1])
PY
