#!/usr/bin/env python3
"""Regenerates /verif/MANIFEST.json from the table below (run from /verif)."""
import json, subprocess
ids=[json.loads(l)['id'] for l in open('properties.jsonl')]
hook_commits=subprocess.run(['git','-C','/repo','log','--format=%h','--grep=^verif hooks'],capture_output=True,text=True).stdout.split()
C={}
def chk(pid, cat, text, note, technique, design, thorough=True, engine="mp4mc"):
    C[pid]={"property_id":pid,"quick_cmd":f"bin/check {pid} quick","thorough_cmd":f"bin/check {pid} thorough",
            "evidence_file":f"evidence/{pid}.json","replay_cmd_template":"bin/check --replay {path}","engine":engine,
            "level_claimed":{"category":cat,"text":text,"design_ref":design},"level_note":note,"technique":technique}
    if not thorough: del C[pid]["thorough_cmd"]

chk("C16","model_checking",
    "Every mapping is evaluated on its complete finite domain (2^32 codes, 2^16 language codes, 2^16 AVC pairs, all raw fixed-point values, all u8/u32 enum inputs) on the real code and compared with tables transcribed from the standards; exhaustive=true, so within the stated tables this is a complete decision, not a bound.",
    "Trusted: the hand-transcribed tables (14496-12 box names, 14496-3 Tables 1.17-1.19, 14496-10 Annex A), rustc, the harness loops. The accepted spellings of non-ASCII four-character strings are not prescribed (only that accepted text prints back identically).",
    "exhaustive enumeration of complete finite domains on the real code (explicit-state, no abstraction)","§3 C16")

chk("C01","model_checking",
    "Every history of write_sample calls up to the stated depth over alphabets that hold one value per shortcut of the muxer's table builders (sizes 0/1/2, durations 0/half/T/T+1, offsets 0/+/-, sync on/off, rejected track ids, writes refused on a known track because the track duration leaves 64 bits, every media kind alone and in ordered pairs, a timescale grid, one-hot extremes) is muxed by the real writer, read back by the real reader and compared with a list-of-samples reference model built from the calls the muxer accepted; whenever a call was refused the output must equal byte for byte the output of muxing the accepted calls alone; within the bound the enumeration is complete.",
    "Bounded: histories longer than the depth, or values outside the alphabets, are not covered. Decoder = the library's own reader (C02 adds an independent parser). Trusted: harness reference model (a Vec per track).",
    "exhaustive enumeration of operation histories (depth-bounded) on the real muxer+reader against a reference model","§3 C01")

E3NOTE="Bounded: inputs within <=1 field substitution of the baselines with values from a boundary menu, <=2 substitutions with the full menus (thorough, selected baselines) or with reduced menus {zero, all ones, neighbour} (quick: baselines <=1500 bytes; thorough: all others), plus two structurally defined multi-field sets on every baseline (overrun chains: all box sizes on every suffix of every ancestor path raised together; extreme pairs: every 64-bit number x every 32-bit field at the top of their range); fields are the reads the parser itself performs. No byte-level havoc (that would be sampling). Trusted: harness streams/allocator, the watchdog (10 s wall per case)."
chk("C06","model_checking",
    "Each baseline (muxer outputs of every kind, canned files incl. fragment-mode, reference-encoded kitchen sinks K1-K6) and each member of the enumerated input-shape families (metadata item x data type x payload length, fragment run-length vectors x flag forms, chunk/size shapes) is opened and fully probed (every accessor, JSON/summary of every box, sample ids 0..count+1 and u32::MAX) under every single substitution of a boundary value into every field the parser reads (and all pairs on selected baselines in the thorough tier), in both an overflow-checked and a wrapping release build, in worker subprocesses so aborts and stack overflows are attributed; no panic/abort on any explored input.",
    E3NOTE,"exhaustive deviation-bounded exploration of inputs (k<=2 field substitutions, dynamic field discovery) on the real reader, two build profiles, process isolation","§3 C06")
chk("C07","model_checking",
    "Same executions as C06 with a counting, budgeted stream: every open and every later call must stay within 64n+4096 stream operations and 64n+2^20 bytes (+ the returned sample), and thread CPU time within 0.5 s per phase; a watchdog turns a non-terminating case into an attributed violation instead of a hung run.",
    E3NOTE+" The CPU clause rests on a time threshold (>100x over honest work).","exhaustive deviation-bounded exploration with operation/byte/CPU budgets on the real reader","§3 C07")
chk("C08","model_checking",
    "Same executions as C06 under a counting global allocator: peak live bytes and the largest single request during open and during the call suite must stay within 128n+8MiB; a refused (>32 GiB) request is recorded before the process aborts.",
    E3NOTE,"exhaustive deviation-bounded exploration with an allocation-counting allocator on the real reader","§3 C08")

chk("C10","fault_enumeration",
    "For every explored file and muxing history, every stream-call index k of open, of each read_sample and of every muxer call is failed once in every way that kind of call can fail (read: Err, Ok(0); seek: Err; write: Err, Ok(0)) and the library call in progress must return Err(IoError); every single short transfer (1, len/2, len-1 bytes) or Interrupted answer at every call, all pairs on selected files, and the one-byte-everywhere / interrupted-before-every-call schedules must leave the reader's full result digest and the muxer's output bytes identical. Each planned deviation is asserted to have fired.",
    "Bounded: one fault per execution; pairs of transparent deviations only on the files/histories marked for it; the explored files/histories are a fixed list. Trusted: scripted streams of the harness.",
    "exhaustive single-fault enumeration over stream-call indices + deviation-bounded (k<=2) short/interrupted transfer schedules on the real reader and muxer","§3 C10")
chk("C11","fault_enumeration",
    "Every cut position 0..len of every baseline layout (muxer layout, movie-header-first, fragmented in one stream and as separate segment, extra reference layouts, and 56 variants of a movie-header-last file in each of which another box of the movie header is the very last box of the file) is opened with the prefix's own length in an isolated worker; open must return (no panic, no hang), and when it succeeds every sample 1..count+1 of every track is Err, None, or identical in bytes and timing to that sample of the complete file.",
    "Complete over cut positions for the listed files; the files are a fixed list. Ok(None)/Err both count as 'no data'.",
    "exhaustive enumeration of crash/cut points with a differential oracle against the complete file","§3 C11")

chk("C02","model_checking",
    "The same history space as C01; every output is parsed by the harness' own strict ISO-BMFF parser (no library code) and every clause of the statement (tiling, container arithmetic, table totals and per-sample values, sync table, chunk bounds and disjointness, header durations within one tick) is recomputed from the bytes and the history.",
    "Bounded as C01. Trusted: refmp4::parse / refmp4::validate, hand-written from ISO/IEC 14496-12.",
    "exhaustive enumeration of operation histories (depth-bounded) on the real muxer, judged by an independent reference decoder","§3 C02")
chk("C14","model_checking",
    "Complete loops over each configuration field's domain (all 42x13x7 AAC triples x 4 bitrates, all 26^3 languages, every u16 width and height for the three video kinds, all 2^24 SPS profile/compat/level triples, every 4-byte SPS/PPS prefix over {00,01,67,ff} and every first byte, parameter-set lengths up to 65535, brand lists, timescale grid, track-type x media pairs, two-track pairs), each muxed with small histories and reopened; every accessor named in the statement must equal the configuration and durations must agree within one tick.",
    "Fields are swept one or two at a time (not the full cross product of all fields). Trusted: Annex A profile table and the duration tolerance stated in the evidence.",
    "exhaustive enumeration of configuration domains x small operation histories on the real muxer+reader","§3 C14")
chk("C15","model_checking",
    "Reader: explicit-state breadth-first search of the complete reachable state graph of an opened reader under a ~30-50 call alphabet (state = canonical rendering of every field + stream position); every call is applied in every reachable state and must return what a fresh reader returns; the search is repeated over streams cut at every (quick: every second) position inside the media data with the declared length unchanged, so that failing reads are part of the histories; plus an undeduplicated sweep of all call sequences to depth 2/3. Muxer: every history of C01's quick space muxed twice, byte-identical; every file opened twice, structures equal.",
    "State equality is by fingerprint (sorted pretty-Debug lines + stream position); the depth-2/3 sweep without de-duplication cross-checks it. Files are a fixed list.",
    "explicit-state BFS with state de-duplication over the real reader (whole reachable graph) + exhaustive history enumeration for determinism","§3 C15")
chk("C17","model_checking",
    "All sequences of add_track/write_sample calls (closed by write_end) up to length 4/5 over alphabets of out-of-domain values (timescales 0, parameter sets of 0..4 bytes, odd language strings, arbitrary brand bytes, unknown track ids, add_track after samples, maximal durations and offsets) plus explicit 16 MiB-sample sequences, in both an overflow-checked and a wrapping build; no call may panic, and when all calls succeed the output must pass the C01 read-back and the C02 validator.",
    "Bounded by sequence length and the listed alphabets; calls after write_end are outside the statement ('up to write_end'). The wrapping-profile run happens in a child process whose death would be reported as a machinery failure, not a verdict.",
    "exhaustive enumeration of call sequences (depth-bounded) over out-of-domain alphabets on the real muxer, two build profiles","§3 C17")

chk("C03","model_checking",
    "Every consistent table set up to the bound is reference-encoded from a logical movie by an encoder that shares no code with the library (all compositions of N samples into chunks x every run-length encoding of the chunk map x stco/co64 x every size vector over {0,1,2} and constant sizes; every delta/offset vector with every run splitting and both ctts versions; every sync subset; every interleaving of two tracks' chunks and every chunk order; the complete cross product for small N; all 5x5 codec pairs; the children of stbl in four other orders with uninterpreted boxes among them; sizes in {0x90000000,1,0xffffffff}^N whose running sums pass 2^32, offsets only) and every id 0..N+2, u32::MAX is looked up through sample_offset and read_sample and compared with the statement's formula evaluated on the logical movie. In addition the canned (ffmpeg-produced) files are decoded by the independent parser, the lookup semantics are evaluated on those tables, and every sample is compared with the library's answer.",
    "Bounded by N (7 quick / 9 thorough per family; cross product N<=3/4). 'Randomly for large N' of the quantifier is not covered. Trusted: refmp4 reference encoder (validated in the other direction by C02/C05 and by the canned files).",
    "exhaustive enumeration of input shapes (bounded N) against an independent reference model, on the real reader","§3 C03")
chk("C09","model_checking",
    "Logical fragmented movies are enumerated (1-3 fragments in quick, 1-4 in thorough; one or two tracks per fragment in both orders; run lengths 0..3 or a track fragment without any run; sizes in {0x90000000,1,0xffffffff}^N whose sums pass 2^32 (offsets only); explicit base at the moof or at the data, also together with the default-base-is-moof flag / default-base-is-moof / neither; with and without trun data offset, data before or after the moof (negative offsets); fragment default duration, per-sample durations, composition offsets absent/v0/v1; tfdt v0/v1 with base times 0, 5, 2^32+5; movie-level defaults; 32/64-bit moof headers), reference-encoded, opened both as one stream and as initialization segment + separately opened media segment, and every id is compared with the statement's formula.",
    "Bounded as listed in the evidence (families 1-3). At most one trun per traf. A known finding (single trex) is listed in known_findings.json by predicate.",
    "exhaustive enumeration of input shapes (bounded) against an independent reference model, on the real reader, two delivery modes","§3 C09")

chk("C12","model_checking",
    "Reference box trees of representative progressive movies (AVC+AAC with every optional table, edit lists and iTunes metadata; HEVC+TTXT with a QuickTime-form meta and constant sample size; VP9 with mdat first; VP9+AAC in the QuickTime audio form with esds inside wave, a moov-level meta and a binary year) and fragmented movies (one and two tracks, mixed base/offset forms) are transformed at every applicable position (insert free/unknown boxes with 32- and 64-bit headers at every child index of the top level and of every iterating container; permute order-free siblings (swaps, reversal, every child moved to the front and to the end); swap mdat/moov; 64-bit header on each single box and on all; 1, 8, 12, 16 and 24 spare bytes after every fixed-layout/table box), re-serialised with dependent offsets recomputed, and compared with the untransformed movie: per-sample results, offsets shifted by exactly the layout change, track accessors, metadata. Every single transformation and every pair of transformations, in both tiers.",
    "Logical movies are a fixed representative set (not the whole C03/C09 generator space). hev1/vp09/stsd/edts do not iterate over children and are out of scope of insertion.",
    "exhaustive enumeration of layout transformations (k<=2) of reference-encoded inputs, differential against the untransformed parse, on the real reader","§3 C12")
chk("C18","model_checking",
    "All 16 subsets of the four items x per-item payload alphabets (text lengths 0..70000 with multi-byte UTF-8 and six edge texts with NUL/blank/newline/BOM at either end, year as decimal text or 4-byte binary incl. 0 and 2^32-1, poster lengths 0..70000) x item orders x unrelated items (text, unknown data type, no data box) at every position x handler mdir/mdta/zero x FullBox/QuickTime meta x placement (udta/meta, no udta, udta without meta, meta directly in moov) x delivery (plain file, fragmented in one stream, reader derived by read_fragment_header from the init segment's reader) are reference-encoded and the four accessors compared with the encoded values / absence.",
    "Bounded by the listed alphabets; only the encodings the statement names (text type 1, binary year, JPEG type 13).",
    "exhaustive enumeration of input shapes against an independent reference encoder, on the real reader","§3 C18")

chk("C04","model_checking",
    "For all 48 box codecs (plus the esds descriptors) the shape space is enumerated (version 0/1, every subset of the flag bits that gate fields - tfhd 2^5, trun 2^6 -, every presence combination of optional children, list lengths 0..2/3 and the 5-bit/8-bit count limits of avcC) and crossed with value assignments: all-zero, all-ones at wire width, a fingerprint with distinct non-palindromic bytes per field, one one-hot assignment per field (two-hot pairs in thorough), strings that look length-prefixed. Each value is encoded (count returned = box_size() = bytes written = header size field; header code = the box's own), decoded with 0, 1 and 9 trailing sibling bytes (equal value, stream exactly at the box end), and the reference encoding (32- and 64-bit header) is pushed through decode -> encode -> decode (fixpoint); the same fixpoint clause is applied to every box of the canned real files for which the library has a codec.",
    "Bounded by list lengths and the value alphabet (not arbitrary field values). 'Representable' is made explicit per box in the generator. Boxes over 4 GiB are only covered at header level (C05).",
    "exhaustive enumeration of box shapes x value assignments on the real codecs (round-trip and fixpoint oracles)","§3 C04")
chk("C05","model_checking",
    "Same shape x value space as C04; the library's bytes must equal the bytes of an independent reference encoder written from the standards (reserved positions masked, noted), the reference bytes must decode to the same field values, also with a 64-bit size header on the box itself and on each of its descendants in turn (followed by another box), and with esds descriptor lengths padded to 2-4 bytes; every value of the first two AudioSpecificConfig bytes (x a third/fifth/sixth byte alphabet) is decoded by the library and compared with a reference bit reader; box header size forms are checked around 2^32.",
    "Trusted: the hand-written reference encoder (REFSPEC.md). Child order inside containers follows the library's (order carries no meaning). One known finding (escaped object type + explicit frequency, pinned by the repository's own test) is listed by predicate.",
    "exhaustive enumeration of box shapes x value assignments against an independent reference encoder/decoder; complete sweeps of packed bytes","§3 C05")
chk("C13","model_checking",
    "Boundary-value histories that land the media-data size, the first/last chunk offset (by 4.3 GB of volume through a sparse stream, and by a non-zero stream origin) and the summed durations (media, and movie timescale with ratios 1, 2, 1/2) at 2^32-2 .. 2^32+2, every assignment of {short, 2^32-1, above 2^32} movie ticks to two and three tracks, plus an origin sweep that puts the 2^32 boundary at every byte of the region written by the final flushes of two tracks with pending chunks, are muxed by the real writer, validated by the independent parser (C02 oracle incl. 64-bit forms where a value needs them) and read back sample by sample through the real reader.",
    "Volume cases use constant-valued large samples; AVC only in quick, all five kinds in thorough. Boxes other than mdat above 4 GiB are unreachable through the muxer.",
    "boundary-value enumeration of muxing histories over a sparse >4 GiB stream on the real muxer+reader, judged by reference model and independent validator","§3 C13")

NA={}
m={"version":1,
   "setup_cmd":"cd harness && CARGO_NET_OFFLINE=true cargo build --offline --release && CARGO_NET_OFFLINE=true cargo build --offline --profile wrapping",
   "hooks":{"guard":"mp4_verif","enable":"rustflags = [\"--cfg\", \"mp4_verif\"] in /verif/harness/.cargo/config.toml (applies to the path dependency /repo)",
            "baseline_off_cmd":"cd /repo && cargo test --workspace --no-fail-fast --offline",
            "source_commits":hook_commits,"add_only":True},
   "engines":[{"name":"mp4mc","path":"harness","serves_properties":sorted(C.keys()),
               "kind_free_text":"hand-rolled explicit exploration of the real library: E1 operation histories, E2 input shapes vs reference model, E3 environment answers with bounded deviations, E4 complete finite domains"}],
   "checks":[C[k] for k in sorted(C.keys())],
   "notes":"See DESIGN.md. All checks are bounded-exhaustive enumerations on the real code; exit 2 means machinery/build failure, never a verdict.",
   "not_applicable":[{"property_id":i,"reason":NA.get(i,"check not built yet at this commit (work in progress; DESIGN.md §3 describes the planned bounded-exhaustive check)")} for i in ids if i not in C]}
json.dump(m,open('MANIFEST.json','w'),indent=1)
print("checks:",sorted(C.keys()))
