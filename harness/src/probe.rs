//! The read-side call suite: everything a user can ask an opened `Mp4Reader`.
//! Used by C06 (no panic), C07 (work bounds), C08 (allocation bounds), C10/C11/C15 (differential digests).

use crate::common::*;
use crate::env::stream::Ctl;
use mp4::*;
use std::io::{Read, Seek};

#[derive(Default, Debug, Clone)]
pub struct Obs {
    /// (call, panic message)
    pub panics: Vec<(String, String)>,
    /// (call, rendered result) — only when `keep`
    pub digest: Vec<(String, String)>,
    pub calls: u64,
    /// worst per-call stream work: (ops, call), (bytes beyond the returned sample, call)
    pub max_ops: (u64, String),
    pub max_bytes: (u64, String),
    /// box kinds rendered (for the vacuity assertion of the baselines)
    pub boxes: std::collections::BTreeSet<&'static str>,
    /// first call that exhausted its per-call operation budget
    pub budget_hit: Option<String>,
}

pub struct Prober<'c> {
    pub ctl: Option<&'c Ctl>,
    pub keep: bool,
    pub obs: Obs,
    /// per-call stream operation budget (the stream answers Err once it is exhausted)
    pub budget: Option<u64>,
}

impl<'c> Prober<'c> {
    pub fn new(ctl: Option<&'c Ctl>, keep: bool) -> Self {
        Prober { ctl, keep, obs: Obs::default(), budget: None }
    }

    /// Run one call under the panic guard; account stream work.  `credit` = bytes of payload the call returned.
    pub fn call<T>(&mut self, name: &dyn Fn() -> String, f: impl FnOnce() -> T, show: &dyn Fn(&T) -> String, credit: &dyn Fn(&T) -> u64) -> Option<T> {
        let (o0, b0) = self.ctl.map(|c| (c.ops.get(), c.bytes.get())).unwrap_or((0, 0));
        self.obs.calls += 1;
        if let (Some(c), Some(b)) = (self.ctl, self.budget) {
            c.budget_ops.set(o0.saturating_add(b));
            c.budget_hit.set(false);
        }
        let r = guard(f);
        let out = match r {
            Ok(v) => {
                if self.keep {
                    self.obs.digest.push((name(), show(&v)));
                }
                Some(v)
            }
            Err(p) => {
                let p = short_loc(&p);
                if self.keep {
                    self.obs.digest.push((name(), format!("PANIC {}", p)));
                }
                self.obs.panics.push((name(), p));
                None
            }
        };
        if let Some(c) = self.ctl {
            if c.budget_hit.get() && self.obs.budget_hit.is_none() {
                self.obs.budget_hit = Some(name());
            }
            let dops = c.ops.get() - o0;
            let cred = out.as_ref().map(|v| credit(v)).unwrap_or(0);
            let dbytes = (c.bytes.get() - b0).saturating_sub(cred);
            if dops > self.obs.max_ops.0 {
                self.obs.max_ops = (dops, name());
            }
            if dbytes > self.obs.max_bytes.0 {
                self.obs.max_bytes = (dbytes, name());
            }
        }
        out
    }

    fn simple<T: std::fmt::Debug>(&mut self, name: &'static str, f: impl FnOnce() -> T) {
        self.call(&|| name.to_string(), f, &|v| format!("{:?}", v), &|_| 0);
    }

    fn render<B: Mp4Box>(&mut self, kind: &'static str, path: &dyn Fn() -> String, b: &B) {
        self.obs.boxes.insert(kind);
        // rendered JSON is compared as a value: object key order (HashMap iteration order inside ilst) is not part of the result
        self.call(&|| format!("{}.to_json", path()), || b.to_json().map_err(|e| e.to_string()), &|v: &std::result::Result<String, String>| match v {
            Ok(s) => match serde_json::from_str::<serde_json::Value>(s) {
                Ok(j) => format!("Ok({})", j),
                Err(_) => format!("Ok(unparsable {:?})", s),
            },
            Err(e) => format!("Err({})", e),
        }, &|_| 0);
        self.call(&|| format!("{}.summary", path()), || b.summary().map_err(|e| e.to_string()), &|v| format!("{:?}", v), &|_| 0);
        self.call(&|| format!("{}.box_size", path()), || (b.box_size(), u32::from(b.box_type())), &|v| format!("{:?}", v), &|_| 0);
    }

    fn render_meta(&mut self, path: &dyn Fn() -> String, m: &MetaBox) {
        self.render("meta", path, m);
        if let MetaBox::Mdir { ilst: Some(ilst) } = m {
            self.render("ilst", &|| format!("{}.ilst", path()), ilst);
            // HashMap iteration order is per instance: visit the items in a fixed order
            let mut items: Vec<_> = ilst.items.iter().map(|(k, it)| (format!("{:?}", k), it)).collect();
            items.sort_by(|a, b| a.0.cmp(&b.0));
            for (k, it) in items.iter() {
                self.render("data", &|| format!("{}.ilst.{}.data", path(), k), &it.data);
            }
        }
    }

    fn render_trak(&mut self, path: &dyn Fn() -> String, t: &TrakBox) {
        self.render("trak", path, t);
        self.render("tkhd", &|| format!("{}.tkhd", path()), &t.tkhd);
        if let Some(e) = &t.edts {
            self.render("edts", &|| format!("{}.edts", path()), e);
            if let Some(l) = &e.elst {
                self.render("elst", &|| format!("{}.elst", path()), l);
            }
        }
        if let Some(m) = &t.meta {
            self.render_meta(&|| format!("{}.meta", path()), m);
        }
        self.render("mdia", &|| format!("{}.mdia", path()), &t.mdia);
        self.render("mdhd", &|| format!("{}.mdhd", path()), &t.mdia.mdhd);
        self.render("hdlr", &|| format!("{}.hdlr", path()), &t.mdia.hdlr);
        let minf = &t.mdia.minf;
        self.render("minf", &|| format!("{}.minf", path()), minf);
        if let Some(v) = &minf.vmhd {
            self.render("vmhd", &|| format!("{}.vmhd", path()), v);
        }
        if let Some(v) = &minf.smhd {
            self.render("smhd", &|| format!("{}.smhd", path()), v);
        }
        self.render("dinf", &|| format!("{}.dinf", path()), &minf.dinf);
        let s = &minf.stbl;
        self.render("stbl", &|| format!("{}.stbl", path()), s);
        self.render("stsd", &|| format!("{}.stsd", path()), &s.stsd);
        if let Some(b) = &s.stsd.avc1 {
            self.render("avc1", &|| format!("{}.avc1", path()), b);
            self.render("avcC", &|| format!("{}.avcC", path()), &b.avcc);
        }
        if let Some(b) = &s.stsd.hev1 {
            self.render("hev1", &|| format!("{}.hev1", path()), b);
            self.render("hvcC", &|| format!("{}.hvcC", path()), &b.hvcc);
        }
        if let Some(b) = &s.stsd.vp09 {
            self.render("vp09", &|| format!("{}.vp09", path()), b);
            self.render("vpcC", &|| format!("{}.vpcC", path()), &b.vpcc);
        }
        if let Some(b) = &s.stsd.mp4a {
            self.render("mp4a", &|| format!("{}.mp4a", path()), b);
            if let Some(e) = &b.esds {
                self.render("esds", &|| format!("{}.esds", path()), e);
            }
        }
        if let Some(b) = &s.stsd.tx3g {
            self.render("tx3g", &|| format!("{}.tx3g", path()), b);
        }
        self.render("stts", &|| format!("{}.stts", path()), &s.stts);
        if let Some(b) = &s.ctts {
            self.render("ctts", &|| format!("{}.ctts", path()), b);
        }
        if let Some(b) = &s.stss {
            self.render("stss", &|| format!("{}.stss", path()), b);
        }
        self.render("stsc", &|| format!("{}.stsc", path()), &s.stsc);
        self.render("stsz", &|| format!("{}.stsz", path()), &s.stsz);
        if let Some(b) = &s.stco {
            self.render("stco", &|| format!("{}.stco", path()), b);
        }
        if let Some(b) = &s.co64 {
            self.render("co64", &|| format!("{}.co64", path()), b);
        }
    }

    /// Every accessor, every rendering, every sample id in `sample_ids(count)` of every track.
    pub fn probe<R: Read + Seek>(&mut self, r: &mut Mp4Reader<R>, all_samples: bool) {
        self.simple("size", || r.size());
        self.simple("major_brand", || *r.major_brand());
        self.simple("minor_version", || r.minor_version());
        self.simple("compatible_brands", || r.compatible_brands().to_vec());
        self.simple("duration", || r.duration());
        self.simple("timescale", || r.timescale());
        self.simple("is_fragmented", || r.is_fragmented());
        self.call(&|| "metadata".into(), || {
            let m = r.metadata();
            (m.title().map(|c| c.into_owned()), m.year(), m.poster().map(|p| p.to_vec()), m.summary().map(|c| c.into_owned()))
        }, &|v| format!("{:?}", v), &|_| 0);

        // boxes
        self.render("ftyp", &|| "ftyp".into(), &r.ftyp);
        let moov = r.moov.clone();
        self.render("moov", &|| "moov".into(), &moov);
        self.render("mvhd", &|| "moov.mvhd".into(), &moov.mvhd);
        if let Some(m) = &moov.meta {
            self.render_meta(&|| "moov.meta".into(), m);
        }
        if let Some(x) = &moov.mvex {
            self.render("mvex", &|| "moov.mvex".into(), x);
            if let Some(h) = &x.mehd {
                self.render("mehd", &|| "moov.mvex.mehd".into(), h);
            }
            self.render("trex", &|| "moov.mvex.trex".into(), &x.trex);
        }
        if let Some(u) = &moov.udta {
            self.render("udta", &|| "moov.udta".into(), u);
            if let Some(m) = &u.meta {
                self.render_meta(&|| "moov.udta.meta".into(), m);
            }
        }
        for (i, t) in moov.traks.iter().enumerate() {
            self.render_trak(&|| format!("moov.trak[{}]", i), t);
        }
        let moofs = r.moofs.clone();
        for (i, m) in moofs.iter().enumerate() {
            self.render("moof", &|| format!("moof[{}]", i), m);
            self.render("mfhd", &|| format!("moof[{}].mfhd", i), &m.mfhd);
            for (j, t) in m.trafs.iter().enumerate() {
                self.render("traf", &|| format!("moof[{}].traf[{}]", i, j), t);
                self.render("tfhd", &|| format!("moof[{}].traf[{}].tfhd", i, j), &t.tfhd);
                if let Some(d) = &t.tfdt {
                    self.render("tfdt", &|| format!("moof[{}].traf[{}].tfdt", i, j), d);
                }
                if let Some(d) = &t.trun {
                    self.render("trun", &|| format!("moof[{}].traf[{}].trun", i, j), d);
                }
            }
        }
        let emsgs = r.emsgs.clone();
        for (i, e) in emsgs.iter().enumerate() {
            self.render("emsg", &|| format!("emsg[{}]", i), e);
        }

        // tracks
        let mut ids: Vec<u32> = r.tracks().keys().copied().collect();
        ids.sort();
        let maxid = ids.last().copied().unwrap_or(0);
        for &id in ids.iter() {
            macro_rules! acc {
                ($name:literal, $e:expr) => {
                    self.call(&|| format!("track[{}].{}", id, $name), || {
                        let t = r.tracks().get(&id).unwrap();
                        $e(t)
                    }, &|v| format!("{:?}", v), &|_| 0);
                };
            }
            acc!("track_id", |t: &Mp4Track| t.track_id());
            acc!("track_type", |t: &Mp4Track| t.track_type().map_err(|e| e.to_string()));
            acc!("media_type", |t: &Mp4Track| t.media_type().map_err(|e| e.to_string()));
            acc!("box_type", |t: &Mp4Track| t.box_type().map_err(|e| e.to_string()));
            acc!("width", |t: &Mp4Track| t.width());
            acc!("height", |t: &Mp4Track| t.height());
            acc!("frame_rate", |t: &Mp4Track| t.frame_rate().to_bits());
            acc!("sample_freq_index", |t: &Mp4Track| t.sample_freq_index().map_err(|e| e.to_string()));
            acc!("channel_config", |t: &Mp4Track| t.channel_config().map_err(|e| e.to_string()));
            acc!("language", |t: &Mp4Track| t.language().to_string());
            acc!("timescale", |t: &Mp4Track| t.timescale());
            acc!("duration", |t: &Mp4Track| t.duration());
            acc!("bitrate", |t: &Mp4Track| t.bitrate());
            acc!("sample_count", |t: &Mp4Track| t.sample_count());
            acc!("video_profile", |t: &Mp4Track| t.video_profile().map_err(|e| e.to_string()));
            acc!("sps", |t: &Mp4Track| t.sequence_parameter_set().map(|b| b.to_vec()).map_err(|e| e.to_string()));
            acc!("pps", |t: &Mp4Track| t.picture_parameter_set().map(|b| b.to_vec()).map_err(|e| e.to_string()));
            acc!("audio_profile", |t: &Mp4Track| t.audio_profile().map_err(|e| e.to_string()));
            acc!("default_sample_duration", |t: &Mp4Track| (t.default_sample_duration, t.moof_offsets.clone(), t.trafs.len()));
        }
        let mut tids = vec![0u32];
        tids.extend(ids.iter().copied());
        tids.push(maxid.wrapping_add(1));
        for &id in tids.iter() {
            let cnt = self
                .call(&|| format!("sample_count({})", id), || r.sample_count(id).map_err(|e| e.to_string()), &|v| format!("{:?}", v), &|_| 0)
                .and_then(|r| r.ok())
                .unwrap_or(0);
            let mut sids: Vec<u32> = if all_samples && cnt <= 4096 {
                (0..=cnt.saturating_add(1)).collect()
            } else {
                vec![0, 1, 2, cnt / 2, cnt.wrapping_sub(1), cnt, cnt.wrapping_add(1)]
            };
            sids.push(u32::MAX);
            sids.sort();
            sids.dedup();
            for sid in sids {
                self.call(&|| format!("sample_offset({},{})", id, sid), || r.sample_offset(id, sid).map_err(|e| e.to_string()), &|v| format!("{:?}", v), &|_| 0);
                self.call(
                    &|| format!("read_sample({},{})", id, sid),
                    || r.read_sample(id, sid).map_err(|e| e.to_string()),
                    &|v: &std::result::Result<Option<Mp4Sample>, String>| match v {
                        Ok(Some(s)) => format!("Some(start={} dur={} off={} sync={} len={} fnv={:016x})", s.start_time, s.duration, s.rendering_offset, s.is_sync, s.bytes.len(), fnv(&s.bytes)),
                        Ok(None) => "None".into(),
                        Err(e) => format!("Err({})", e),
                    },
                    &|v: &std::result::Result<Option<Mp4Sample>, String>| match v {
                        Ok(Some(s)) => s.bytes.len() as u64,
                        _ => 0,
                    },
                );
            }
        }
    }
}
