//! Shared plumbing: tiers, panic capture, violation reporting, known findings, evidence files.

use serde_json::{json, Value};
use std::cell::RefCell;
use std::collections::BTreeMap;
use std::panic::{self, AssertUnwindSafe};
use std::sync::Mutex;
use std::time::Instant;

#[derive(Clone, Copy, PartialEq, Eq, Debug)]
pub enum Tier {
    Quick,
    Thorough,
}

impl Tier {
    pub fn name(self) -> &'static str {
        match self {
            Tier::Quick => "quick",
            Tier::Thorough => "thorough",
        }
    }
}

pub fn profile_name() -> &'static str {
    if cfg!(debug_assertions) {
        "checked"
    } else {
        "wrapping"
    }
}

// ---------------------------------------------------------------------------------------------
// panic capture

thread_local! {
    static LAST_PANIC: RefCell<Option<String>> = RefCell::new(None);
}

pub fn install_panic_hook() {
    panic::set_hook(Box::new(|info| {
        let loc = info
            .location()
            .map(|l| format!("{}:{}", l.file(), l.line()))
            .unwrap_or_else(|| "?".into());
        let msg = if let Some(s) = info.payload().downcast_ref::<&str>() {
            s.to_string()
        } else if let Some(s) = info.payload().downcast_ref::<String>() {
            s.clone()
        } else {
            "<non-string panic>".into()
        };
        if std::env::var("MP4MC_PANIC_VERBOSE").is_ok() {
            eprintln!("panic: {} @ {}", msg, loc);
        }
        LAST_PANIC.with(|p| *p.borrow_mut() = Some(format!("{} @ {}", msg, loc)));
    }));
}

/// Run `f`, turning a panic into `Err(message @ file:line)`.
pub fn guard<T>(f: impl FnOnce() -> T) -> Result<T, String> {
    match panic::catch_unwind(AssertUnwindSafe(f)) {
        Ok(v) => Ok(v),
        Err(_) => Err(LAST_PANIC
            .with(|p| p.borrow_mut().take())
            .unwrap_or_else(|| "<panic>".into())),
    }
}

/// Strip the absolute prefix of library paths so that messages are stable.
pub fn short_loc(s: &str) -> String {
    s.replace("/repo/", "")
}

// ---------------------------------------------------------------------------------------------
// violations & known findings

#[derive(Clone, Debug)]
pub struct Violation {
    pub property: String,
    /// Which clause of the oracle failed (stable identifier).
    pub clause: String,
    /// Names of the case predicates (compiled into the harness) that hold for this failing case.
    pub tags: Vec<String>,
    /// The minimal case, replayable.
    pub case: Value,
    pub observed: Value,
    pub expected: Value,
}

impl Violation {
    pub fn new(property: &str, clause: &str, case: Value) -> Self {
        Violation {
            property: property.into(),
            clause: clause.into(),
            tags: vec![],
            case,
            observed: Value::Null,
            expected: Value::Null,
        }
    }
    pub fn tag(mut self, t: &str) -> Self {
        self.tags.push(t.into());
        self
    }
    pub fn obs(mut self, v: Value) -> Self {
        self.observed = v;
        self
    }
    pub fn exp(mut self, v: Value) -> Self {
        self.expected = v;
        self
    }
    pub fn to_json(&self) -> Value {
        json!({"property": self.property, "clause": self.clause, "tags": self.tags, "case": self.case,
               "observed": self.observed, "expected": self.expected, "profile": profile_name()})
    }
    pub fn from_json(v: &Value) -> Option<Self> {
        Some(Violation {
            property: v.get("property")?.as_str()?.into(),
            clause: v.get("clause")?.as_str()?.into(),
            tags: v
                .get("tags")?
                .as_array()?
                .iter()
                .filter_map(|t| t.as_str().map(|s| s.to_string()))
                .collect(),
            case: v.get("case")?.clone(),
            observed: v.get("observed").cloned().unwrap_or(Value::Null),
            expected: v.get("expected").cloned().unwrap_or(Value::Null),
        })
    }
}

#[derive(Clone, Debug)]
pub struct Finding {
    pub status: String,
    pub property: String,
    pub clause: String,
    pub when: String,
    pub what: String,
}

pub fn load_findings(path: &str) -> Vec<Finding> {
    let txt = match std::fs::read_to_string(path) {
        Ok(t) => t,
        Err(_) => return vec![],
    };
    let v: Value = serde_json::from_str(&txt).expect("known_findings.json must be valid JSON");
    let mut out = vec![];
    for e in v.get("findings").and_then(|f| f.as_array()).cloned().unwrap_or_default() {
        let g = |k: &str| e.get(k).and_then(|x| x.as_str()).unwrap_or("").to_string();
        out.push(Finding {
            status: g("status"),
            property: g("property"),
            clause: g("clause"),
            when: g("when"),
            what: g("what"),
        });
    }
    out
}

/// Collects violations from all threads; classifies against known findings; writes replays.
pub struct Reporter {
    pub property: String,
    inner: Mutex<RepInner>,
    findings: Vec<Finding>,
}

struct RepInner {
    /// clause|tags -> (count, first few)
    classes: BTreeMap<String, (u64, Vec<Violation>)>,
    total: u64,
}

const KEEP_PER_CLASS: usize = 3;

impl Reporter {
    pub fn new(property: &str) -> Self {
        let findings = load_findings("known_findings.json")
            .into_iter()
            .filter(|f| f.property == property && f.status == "known")
            .collect();
        Reporter {
            property: property.into(),
            inner: Mutex::new(RepInner { classes: BTreeMap::new(), total: 0 }),
            findings,
        }
    }

    pub fn report(&self, v: Violation) {
        let key = format!("{}|{}", v.clause, v.tags.join(","));
        let mut g = self.inner.lock().unwrap();
        g.total += 1;
        let e = g.classes.entry(key).or_insert((0, vec![]));
        e.0 += 1;
        if e.1.len() < KEEP_PER_CLASS {
            e.1.push(v);
        }
    }

    /// Report one representative case standing for `n` failing cases of the same class.
    pub fn report_n(&self, v: Violation, n: u64) {
        let key = format!("{}|{}", v.clause, v.tags.join(","));
        let mut g = self.inner.lock().unwrap();
        g.total += n;
        let e = g.classes.entry(key).or_insert((0, vec![]));
        e.0 += n;
        if e.1.len() < KEEP_PER_CLASS {
            e.1.push(v);
        }
    }

    pub fn total(&self) -> u64 {
        self.inner.lock().unwrap().total
    }

    fn known_for(&self, v: &Violation) -> Option<&Finding> {
        self.findings
            .iter()
            .find(|f| f.clause == v.clause && (f.when == "*" || v.tags.iter().any(|t| *t == f.when)))
    }

    /// Print KNOWN-FINDING / VIOLATION lines, write replay files.  Returns (unlisted, known) counts.
    pub fn finish(&self) -> (u64, u64, Value) {
        let g = self.inner.lock().unwrap();
        let mut unlisted = 0u64;
        let mut known = 0u64;
        let mut known_printed: BTreeMap<String, u64> = BTreeMap::new();
        let mut summary = vec![];
        let dir = format!("replays/{}", self.property);
        for (key, (count, firsts)) in g.classes.iter() {
            let v0 = &firsts[0];
            if let Some(f) = self.known_for(v0) {
                known += *count;
                *known_printed.entry(format!("{} [{} when {}]", f.what, f.clause, f.when)).or_insert(0) += *count;
                summary.push(json!({"class": key, "count": count, "disposition": "known-finding"}));
                continue;
            }
            unlisted += *count;
            let _ = std::fs::create_dir_all(&dir);
            for v in firsts.iter() {
                let body = serde_json::to_string_pretty(&v.to_json()).unwrap();
                let digest = fnv(body.as_bytes());
                let path = format!("{}/{}-{:016x}.json", dir, sanitize(&v.clause), digest);
                let _ = std::fs::write(&path, body);
                println!("VIOLATION property={} replay={}", self.property, path);
            }
            if *count as usize > firsts.len() {
                println!(
                    "  ... {} more violations of class [{}] (only the first {} are written out)",
                    *count as usize - firsts.len(),
                    key,
                    firsts.len()
                );
            }
            summary.push(json!({"class": key, "count": count, "disposition": "VIOLATION"}));
        }
        for (what, n) in known_printed {
            println!("KNOWN-FINDING: property={} {} ({} cases)", self.property, what, n);
        }
        (unlisted, known, Value::Array(summary))
    }
}

pub fn sanitize(s: &str) -> String {
    s.chars().map(|c| if c.is_ascii_alphanumeric() || c == '_' || c == '-' { c } else { '_' }).collect()
}

pub fn fnv(b: &[u8]) -> u64 {
    let mut h: u64 = 0xcbf29ce484222325;
    for x in b {
        h ^= *x as u64;
        h = h.wrapping_mul(0x100000001b3);
    }
    h
}

pub fn hex(b: &[u8]) -> String {
    let mut s = String::with_capacity(b.len() * 2);
    for x in b {
        s.push_str(&format!("{:02x}", x));
    }
    s
}

pub fn unhex(s: &str) -> Vec<u8> {
    (0..s.len() / 2).map(|i| u8::from_str_radix(&s[2 * i..2 * i + 2], 16).unwrap()).collect()
}

// ---------------------------------------------------------------------------------------------
// evidence

pub struct Evidence {
    pub property: String,
    pub tier: Tier,
    pub seed: u64,
    pub level: &'static str,
    pub start: Instant,
    pub coverage: serde_json::Map<String, Value>,
    pub assumptions: Vec<String>,
}

impl Evidence {
    pub fn new(property: &str, tier: Tier, seed: u64, level: &'static str) -> Self {
        Evidence {
            property: property.into(),
            tier,
            seed,
            level,
            start: Instant::now(),
            coverage: serde_json::Map::new(),
            assumptions: vec![],
        }
    }
    pub fn set(&mut self, k: &str, v: Value) {
        self.coverage.insert(k.into(), v);
    }
    pub fn assume(&mut self, s: &str) {
        self.assumptions.push(s.into());
    }
    pub fn write(&self, violations: u64, known: u64, classes: Value) {
        let mut cov = self.coverage.clone();
        cov.insert("violation_classes".into(), classes);
        cov.insert("known_finding_cases".into(), json!(known));
        cov.insert("profile".into(), json!(profile_name()));
        let v = json!({
            "property_id": self.property,
            "tier": self.tier.name(),
            "seed": self.seed,
            "level": self.level,
            "coverage": Value::Object(cov),
            "assumptions": self.assumptions,
            "wall_s": self.start.elapsed().as_secs_f64(),
            "violations": violations,
        });
        let _ = std::fs::create_dir_all("evidence");
        let path = format!("evidence/{}.json", self.property);
        std::fs::write(&path, serde_json::to_string_pretty(&v).unwrap()).expect("write evidence");
    }
}

/// Standard ending of a check: classify, print, write evidence, return the process exit code.
pub fn conclude(ev: &Evidence, rep: &Reporter) -> i32 {
    let (unlisted, known, classes) = rep.finish();
    ev.write(unlisted, known, classes);
    println!(
        "{} {} [{}]: evaluations={} violations={} known-finding-cases={} wall={:.1}s",
        ev.property,
        ev.tier.name(),
        profile_name(),
        ev.coverage.get("evaluations").cloned().unwrap_or(Value::Null),
        unlisted,
        known,
        ev.start.elapsed().as_secs_f64()
    );
    if unlisted > 0 {
        1
    } else {
        0
    }
}

/// Machinery failure: never a verdict.
pub fn machinery_failure(msg: &str) -> ! {
    eprintln!("MACHINERY FAILURE: {}", msg);
    std::process::exit(2);
}

/// A histogram usable from many threads.
#[derive(Default)]
pub struct Histo(Mutex<BTreeMap<String, u64>>);

impl Histo {
    pub fn add(&self, k: &str, n: u64) {
        *self.0.lock().unwrap().entry(k.to_string()).or_insert(0) += n;
    }
    pub fn merge(&self, m: &BTreeMap<String, u64>) {
        let mut g = self.0.lock().unwrap();
        for (k, n) in m {
            *g.entry(k.clone()).or_insert(0) += *n;
        }
    }
    pub fn to_json(&self) -> Value {
        let g = self.0.lock().unwrap();
        Value::Object(g.iter().map(|(k, v)| (k.clone(), json!(v))).collect())
    }
    pub fn len(&self) -> usize {
        self.0.lock().unwrap().len()
    }
}

/// Per-thread bag of violations: exact count per class, first few cases kept.
#[derive(Default)]
pub struct VioBag(pub BTreeMap<String, (u64, Vec<Violation>)>);

impl VioBag {
    pub fn push(&mut self, v: Violation) {
        let key = format!("{}|{}", v.clause, v.tags.join(","));
        let e = self.0.entry(key).or_insert((0, vec![]));
        e.0 += 1;
        if e.1.len() < KEEP_PER_CLASS {
            e.1.push(v);
        }
    }
    /// As `push`, but the violation (with its case rendering) is only built while the class still keeps samples.
    pub fn push_with(&mut self, clause: &str, tags: &[&str], make: impl FnOnce() -> Violation) {
        let key = format!("{}|{}", clause, tags.join(","));
        if let Some(e) = self.0.get_mut(&key) {
            if e.1.len() >= KEEP_PER_CLASS {
                e.0 += 1;
                return;
            }
        }
        let v = make();
        debug_assert_eq!(format!("{}|{}", v.clause, v.tags.join(",")), key);
        self.push(v);
    }
    pub fn merge(&mut self, o: VioBag) {
        for (k, (n, vs)) in o.0 {
            let e = self.0.entry(k).or_insert((0, vec![]));
            e.0 += n;
            for v in vs {
                if e.1.len() < KEEP_PER_CLASS {
                    e.1.push(v);
                }
            }
        }
    }
    pub fn len(&self) -> u64 {
        self.0.values().map(|e| e.0).sum()
    }
    pub fn drain_into(self, rep: &Reporter) {
        for (_, (n, vs)) in self.0 {
            let k = vs.len() as u64;
            for (i, v) in vs.into_iter().enumerate() {
                // the first kept case carries the remainder of the class count
                if i == 0 {
                    rep.report_n(v, n - (k - 1));
                } else {
                    rep.report(v);
                }
            }
        }
    }
}
