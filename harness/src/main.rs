//! mp4mc — bounded exhaustive exploration of alfg/mp4-rust (see /verif/DESIGN.md).

mod common;
mod props;
mod mux;
mod hist;

use common::*;

fn usage() -> ! {
    eprintln!("usage: mp4mc check <ID> [--tier quick|thorough] | mp4mc replay <path>");
    std::process::exit(2);
}

fn main() {
    install_panic_hook();
    let args: Vec<String> = std::env::args().collect();
    if args.len() < 3 {
        usage();
    }
    let seed: u64 = std::env::var("VERIF_SEED").ok().and_then(|s| s.parse().ok()).unwrap_or(0);
    let mut tier = match std::env::var("VERIF_TIER").as_deref() {
        Ok("thorough") => Tier::Thorough,
        _ => Tier::Quick,
    };
    let mut i = 3;
    while i < args.len() {
        if args[i] == "--tier" && i + 1 < args.len() {
            tier = match args[i + 1].as_str() {
                "quick" => Tier::Quick,
                "thorough" => Tier::Thorough,
                _ => usage(),
            };
            i += 1;
        }
        i += 1;
    }
    let code = match args[1].as_str() {
        "check" => match args[2].as_str() {
            "C16" => props::c16::run(tier, seed),
            "C01" => props::c01::run(tier, seed),
            _ => {
                eprintln!("unknown property {}", args[2]);
                2
            }
        },
        _ => usage(),
    };
    std::process::exit(code);
}
