//! mp4mc — bounded exhaustive exploration of alfg/mp4-rust (see /verif/DESIGN.md).

mod boxgen;
mod common;
mod e3;
mod env;
mod hist;
mod mux;
mod probe;
mod props;
mod refmp4;
mod replay;
mod shapes;
mod worker;

#[global_allocator]
static GLOBAL: env::alloc::Counting = env::alloc::Counting;

use common::*;

fn usage() -> ! {
    eprintln!("usage: mp4mc check <ID> [--tier quick|thorough] | mp4mc replay <path>");
    std::process::exit(2);
}

fn main() {
    install_panic_hook();
    // a panic of the harness itself is a machinery failure (exit 2), never a verdict
    match common::guard(real_main) {
        Ok(()) => {}
        Err(p) => common::machinery_failure(&format!("harness panicked: {}", p)),
    }
}

fn real_main() {
    let args: Vec<String> = std::env::args().collect();
    if args.len() < 3 {
        usage();
    }
    let seed: u64 = std::env::var("VERIF_SEED").ok().and_then(|s| s.parse().ok()).unwrap_or(0);
    let mut tier = match std::env::var("VERIF_TIER").as_deref() {
        Ok("thorough") => Tier::Thorough,
        _ => Tier::Quick,
    };
    let mut i = 3;
    while i < args.len() {
        if args[i] == "--tier" && i + 1 < args.len() {
            tier = match args[i + 1].as_str() {
                "quick" => Tier::Quick,
                "thorough" => Tier::Thorough,
                _ => usage(),
            };
            i += 1;
        }
        i += 1;
    }
    if args[1] == "worker" {
        // mp4mc worker e3 <prop> --tier t --seed s --shard .. --of .. --resume-unit .. --resume-sub .. --marker ..
        let wa = worker::parse_worker_args(&args[4..]);
        let mut wseed = seed;
        for i in 4..args.len().saturating_sub(1) {
            if args[i] == "--seed" {
                wseed = args[i + 1].parse().unwrap_or(0);
            }
        }
        let code = match args[2].as_str() {
            "e3" => worker::worker_main(&e3::E3Job::new(&args[3], tier, wseed), &wa),
            "cut" => worker::worker_main(&props::c11::CutJob::new(tier, wseed), &wa),
            _ => 2,
        };
        std::process::exit(code);
    }
    if args[1] == "c17-inner" {
        std::process::exit(props::c17::inner(tier, seed));
    }
    let code = match args[1].as_str() {
        "check" => match args[2].as_str() {
            "C16" => props::c16::run(tier, seed),
            "C01" => props::c01::run(tier, seed),
            "C10" => props::c10::run(tier, seed),
            "C04" => props::c04::run(tier, seed),
            "C05" => props::c05::run(tier, seed),
            "C13" => props::c13::run(tier, seed),
            "C12" => props::c12::run(tier, seed),
            "C18" => props::c18::run(tier, seed),
            "C09" => props::c09::run(tier, seed),
            "C03" => props::c03::run(tier, seed),
            "C02" => props::c02::run(tier, seed),
            "C17" => props::c17::run(tier, seed),
            "C14" => props::c14::run(tier, seed),
            "C15" => props::c15::run(tier, seed),
            "C11" => props::c11::run(tier, seed),
            "C06" => e3::run_check("C06", tier, seed, &["release", "wrapping"]),
            "C07" => e3::run_check("C07", tier, seed, &["release", "wrapping"]),
            "C08" => e3::run_check("C08", tier, seed, &["release", "wrapping"]),
            _ => {
                eprintln!("unknown property {}", args[2]);
                2
            }
        },
        "replay" => replay::run(&args[2]),
        _ => usage(),
    };
    std::process::exit(code);
}
