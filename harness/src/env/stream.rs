//! Scripted streams: the environment of the library.  A stream answers every read/seek/write call
//! from a script: default = full transfer of the baseline bytes; deviations = faults, short transfers,
//! interrupted calls, an operation budget, a cut.  Every call is counted and (optionally) logged.

use std::cell::{Cell, RefCell};
use std::io::{self, Read, Seek, SeekFrom, Write};

#[derive(Clone, Copy, Debug, PartialEq, Eq)]
pub enum Dev {
    /// Err(Other)
    Error,
    /// Ok(0) (end of stream for reads, "wrote nothing" for writes)
    Zero,
    /// transfer at most this many bytes (>= 1)
    Short(usize),
    /// Err(Interrupted) once
    Interrupted,
}

impl Dev {
    pub fn name(&self) -> String {
        match self {
            Dev::Error => "error".into(),
            Dev::Zero => "zero".into(),
            Dev::Short(n) => format!("short{}", n),
            Dev::Interrupted => "interrupted".into(),
        }
    }
}

#[derive(Clone, Copy, Debug, PartialEq, Eq)]
pub enum CallKind {
    Read,
    Seek,
    Write,
    Flush,
}

/// Control block shared between the harness and a stream owned by the library.
pub struct Ctl {
    pub ops: Cell<u64>,
    pub bytes: Cell<u64>,
    pub budget_ops: Cell<u64>,
    pub budget_hit: Cell<bool>,
    pub logging: Cell<bool>,
    /// (position, requested length) of every read call while logging
    pub read_log: RefCell<Vec<(u64, u32)>>,
    /// kind of every call (index = call number) while `kinds_on`
    pub kinds_on: Cell<bool>,
    pub kinds: RefCell<Vec<(CallKind, u32)>>,
    /// deviations by call index (sorted); consumed in order
    pub plan: RefCell<Vec<(u64, Dev)>>,
    pub fired: Cell<u32>,
    /// every call answers `all_mode` (if set): used for the two extreme schedules
    pub one_byte_everywhere: Cell<bool>,
    pub interrupt_before_every_call: Cell<bool>,
    interrupted_last: Cell<bool>,
}

impl Ctl {
    pub fn new() -> Self {
        Ctl {
            ops: Cell::new(0),
            bytes: Cell::new(0),
            budget_ops: Cell::new(u64::MAX),
            budget_hit: Cell::new(false),
            logging: Cell::new(false),
            read_log: RefCell::new(vec![]),
            kinds_on: Cell::new(false),
            kinds: RefCell::new(vec![]),
            plan: RefCell::new(vec![]),
            fired: Cell::new(0),
            one_byte_everywhere: Cell::new(false),
            interrupt_before_every_call: Cell::new(false),
            interrupted_last: Cell::new(false),
        }
    }
    pub fn reset_counters(&self) {
        self.ops.set(0);
        self.bytes.set(0);
        self.budget_hit.set(false);
    }
    /// Called at the start of every stream call; returns the deviation for this call, if any.
    fn enter(&self, kind: CallKind, len: usize) -> io::Result<Option<Dev>> {
        let idx = self.ops.get();
        if idx >= self.budget_ops.get() {
            self.budget_hit.set(true);
            return Err(io::Error::new(io::ErrorKind::Other, "verif: operation budget exhausted"));
        }
        if self.interrupt_before_every_call.get() && kind != CallKind::Seek {
            if !self.interrupted_last.get() {
                self.interrupted_last.set(true);
                return Err(io::Error::new(io::ErrorKind::Interrupted, "verif: interrupted"));
            }
            self.interrupted_last.set(false);
        }
        self.ops.set(idx + 1);
        if self.kinds_on.get() {
            self.kinds.borrow_mut().push((kind, len as u32));
        }
        let mut plan = self.plan.borrow_mut();
        if let Some(&(k, d)) = plan.first() {
            if k == idx {
                plan.remove(0);
                self.fired.set(self.fired.get() + 1);
                return Ok(Some(d));
            }
        }
        if self.one_byte_everywhere.get() && kind != CallKind::Seek && len > 1 {
            return Ok(Some(Dev::Short(1)));
        }
        Ok(None)
    }
}

fn injected() -> io::Error {
    io::Error::new(io::ErrorKind::Other, "verif: injected fault")
}

/// Read + Seek over a byte slice, scripted by `Ctl`.
pub struct SR<'a> {
    pub data: &'a [u8],
    pub pos: u64,
    pub ctl: &'a Ctl,
}

impl<'a> std::fmt::Debug for SR<'a> {
    fn fmt(&self, f: &mut std::fmt::Formatter) -> std::fmt::Result {
        write!(f, "SR(pos={}, len={})", self.pos, self.data.len())
    }
}

impl<'a> SR<'a> {
    pub fn new(data: &'a [u8], ctl: &'a Ctl) -> Self {
        SR { data, pos: 0, ctl }
    }
}

impl<'a> Read for SR<'a> {
    fn read(&mut self, buf: &mut [u8]) -> io::Result<usize> {
        let dev = self.ctl.enter(CallKind::Read, buf.len())?;
        if self.ctl.logging.get() {
            self.ctl.read_log.borrow_mut().push((self.pos, buf.len() as u32));
        }
        let mut want = buf.len();
        match dev {
            Some(Dev::Error) => return Err(injected()),
            Some(Dev::Zero) => return Ok(0),
            Some(Dev::Interrupted) => return Err(io::Error::new(io::ErrorKind::Interrupted, "verif: interrupted")),
            Some(Dev::Short(n)) => want = want.min(n.max(1)),
            None => {}
        }
        let len = self.data.len() as u64;
        if self.pos >= len {
            return Ok(0);
        }
        let n = want.min((len - self.pos) as usize);
        let p = self.pos as usize;
        buf[..n].copy_from_slice(&self.data[p..p + n]);
        self.pos += n as u64;
        self.ctl.bytes.set(self.ctl.bytes.get() + n as u64);
        Ok(n)
    }
}

fn seek_to(pos: u64, len: u64, s: SeekFrom) -> io::Result<u64> {
    let (base, off) = match s {
        SeekFrom::Start(n) => return Ok(n),
        SeekFrom::End(n) => (len, n),
        SeekFrom::Current(n) => (pos, n),
    };
    let r = if off >= 0 { base.checked_add(off as u64) } else { base.checked_sub(off.unsigned_abs()) };
    r.ok_or_else(|| io::Error::new(io::ErrorKind::InvalidInput, "invalid seek to a negative or overflowing position"))
}

impl<'a> Seek for SR<'a> {
    fn seek(&mut self, s: SeekFrom) -> io::Result<u64> {
        let dev = self.ctl.enter(CallKind::Seek, 0)?;
        // only a fault makes a seek fail; a transparent deviation (short / interrupted) that lands on a seek is a no-op
        if matches!(dev, Some(Dev::Error) | Some(Dev::Zero)) {
            return Err(injected());
        }
        self.pos = seek_to(self.pos, self.data.len() as u64, s)?;
        Ok(self.pos)
    }
}

/// Write + Seek into a growable buffer, scripted by `Ctl`.  `origin` lets the stream start at a non-zero position.
pub struct SW<'a> {
    pub data: Vec<u8>,
    pub pos: u64,
    pub ctl: &'a Ctl,
}

impl<'a> SW<'a> {
    pub fn new(ctl: &'a Ctl) -> Self {
        SW { data: vec![], pos: 0, ctl }
    }
}

impl<'a> Write for SW<'a> {
    fn write(&mut self, buf: &[u8]) -> io::Result<usize> {
        let dev = self.ctl.enter(CallKind::Write, buf.len())?;
        let mut want = buf.len();
        match dev {
            Some(Dev::Error) => return Err(injected()),
            Some(Dev::Zero) => return Ok(0),
            Some(Dev::Interrupted) => return Err(io::Error::new(io::ErrorKind::Interrupted, "verif: interrupted")),
            Some(Dev::Short(n)) => want = want.min(n.max(1)),
            None => {}
        }
        let p = self.pos as usize;
        if self.data.len() < p + want {
            self.data.resize(p + want, 0);
        }
        self.data[p..p + want].copy_from_slice(&buf[..want]);
        self.pos += want as u64;
        self.ctl.bytes.set(self.ctl.bytes.get() + want as u64);
        Ok(want)
    }
    fn flush(&mut self) -> io::Result<()> {
        let dev = self.ctl.enter(CallKind::Flush, 0)?;
        if dev.is_some() {
            return Err(injected());
        }
        Ok(())
    }
}

impl<'a> Seek for SW<'a> {
    fn seek(&mut self, s: SeekFrom) -> io::Result<u64> {
        let dev = self.ctl.enter(CallKind::Seek, 0)?;
        // only a fault makes a seek fail; a transparent deviation (short / interrupted) that lands on a seek is a no-op
        if matches!(dev, Some(Dev::Error) | Some(Dev::Zero)) {
            return Err(injected());
        }
        self.pos = seek_to(self.pos, self.data.len() as u64, s)?;
        Ok(self.pos)
    }
}
