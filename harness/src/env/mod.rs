pub mod alloc;
pub mod stream;
