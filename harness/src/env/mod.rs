pub mod alloc;
pub mod stream;
pub mod sparse;
