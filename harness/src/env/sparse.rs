//! Sparse in-memory stream for > 4 GiB outputs: pages that hold one repeated byte cost nothing.

use crate::refmp4::parse::Src;
use std::collections::HashMap;
use std::io::{self, Read, Seek, SeekFrom, Write};

const PAGE: u64 = 1 << 16;

enum Page {
    Const(u8),
    Data(Box<[u8]>),
}

pub struct Sparse {
    pages: HashMap<u64, Page>,
    pub pos: u64,
    pub len: u64,
    pub writes: u64,
}

impl Sparse {
    /// A stream whose current position (and logical start) is `origin`.
    pub fn new(origin: u64) -> Sparse {
        Sparse { pages: HashMap::new(), pos: origin, len: origin, writes: 0 }
    }
    pub fn resident_bytes(&self) -> u64 {
        self.pages.values().map(|p| if let Page::Data(d) = p { d.len() as u64 } else { 1 }).sum()
    }
    fn read_into(&self, mut pos: u64, buf: &mut [u8]) {
        let mut done = 0usize;
        while done < buf.len() {
            let pi = pos / PAGE;
            let off = (pos % PAGE) as usize;
            let n = (PAGE as usize - off).min(buf.len() - done);
            match self.pages.get(&pi) {
                None => buf[done..done + n].iter_mut().for_each(|b| *b = 0),
                Some(Page::Const(c)) => buf[done..done + n].iter_mut().for_each(|b| *b = *c),
                Some(Page::Data(d)) => buf[done..done + n].copy_from_slice(&d[off..off + n]),
            }
            done += n;
            pos += n as u64;
        }
    }
}

impl Write for Sparse {
    fn write(&mut self, buf: &[u8]) -> io::Result<usize> {
        self.writes += 1;
        let mut pos = self.pos;
        let mut done = 0usize;
        while done < buf.len() {
            let pi = pos / PAGE;
            let off = (pos % PAGE) as usize;
            let n = (PAGE as usize - off).min(buf.len() - done);
            let seg = &buf[done..done + n];
            if n == PAGE as usize && seg.iter().all(|b| *b == seg[0]) {
                self.pages.insert(pi, Page::Const(seg[0]));
            } else {
                let page = self.pages.entry(pi).or_insert(Page::Const(0));
                if let Page::Const(c) = page {
                    *page = Page::Data(vec![*c; PAGE as usize].into_boxed_slice());
                }
                if let Page::Data(d) = page {
                    d[off..off + n].copy_from_slice(seg);
                }
            }
            done += n;
            pos += n as u64;
        }
        self.pos = pos;
        if pos > self.len {
            self.len = pos;
        }
        Ok(buf.len())
    }
    fn flush(&mut self) -> io::Result<()> {
        Ok(())
    }
}

impl Read for Sparse {
    fn read(&mut self, buf: &mut [u8]) -> io::Result<usize> {
        if self.pos >= self.len {
            return Ok(0);
        }
        let n = (buf.len() as u64).min(self.len - self.pos) as usize;
        let p = self.pos;
        self.read_into(p, &mut buf[..n]);
        self.pos += n as u64;
        Ok(n)
    }
}

impl Seek for Sparse {
    fn seek(&mut self, s: SeekFrom) -> io::Result<u64> {
        let (base, off) = match s {
            SeekFrom::Start(n) => {
                self.pos = n;
                return Ok(n);
            }
            SeekFrom::End(n) => (self.len, n),
            SeekFrom::Current(n) => (self.pos, n),
        };
        let r = if off >= 0 { base.checked_add(off as u64) } else { base.checked_sub(off.unsigned_abs()) };
        self.pos = r.ok_or_else(|| io::Error::new(io::ErrorKind::InvalidInput, "invalid seek"))?;
        Ok(self.pos)
    }
}

impl Src for Sparse {
    fn len(&self) -> u64 {
        self.len
    }
    fn read_at(&self, pos: u64, buf: &mut [u8]) -> bool {
        if pos > self.len || buf.len() as u64 > self.len - pos {
            return false;
        }
        self.read_into(pos, buf);
        true
    }
}
