//! Counting global allocator: live bytes, peak, largest single request (per thread, so that the
//! numbers of one case are not disturbed by other rayon threads).

use std::alloc::{GlobalAlloc, Layout, System};
use std::cell::Cell;

pub struct Counting;

thread_local! {
    static LIVE: Cell<i64> = const { Cell::new(0) };
    static PEAK: Cell<i64> = const { Cell::new(0) };
    static MAXREQ: Cell<u64> = const { Cell::new(0) };
    static REFUSED: Cell<u64> = const { Cell::new(0) };
}

/// Requests above this are refused (null): nothing honest in this code base comes near it; requests below it
/// are satisfied lazily by the kernel (untouched pages cost nothing), so they are *observed*, not guessed.
pub const HARD_CAP: u64 = 1 << 35;

/// Where a refused request is recorded so that the parent of a worker process can see why it aborted.
pub static REFUSE_SLOT: std::sync::atomic::AtomicPtr<u64> = std::sync::atomic::AtomicPtr::new(std::ptr::null_mut());

/// Where the largest request (>= 1 MiB) of the case in progress is recorded, so that it survives the death of the
/// worker (a request that is granted lazily and then filled can end in the watchdog instead of a measured result).
pub static BIGREQ_SLOT: std::sync::atomic::AtomicPtr<u64> = std::sync::atomic::AtomicPtr::new(std::ptr::null_mut());

#[inline]
fn on_alloc(size: usize) -> bool {
    let s = size as u64;
    if s >= 1 << 20 {
        let p = BIGREQ_SLOT.load(std::sync::atomic::Ordering::Relaxed);
        if !p.is_null() {
            unsafe {
                if s > std::ptr::read_volatile(p) {
                    std::ptr::write_volatile(p, s);
                }
            }
        }
    }
    let _ = MAXREQ.try_with(|m| {
        if s > m.get() {
            m.set(s)
        }
    });
    if s > HARD_CAP {
        let _ = REFUSED.try_with(|r| r.set(r.get().max(s)));
        let p = REFUSE_SLOT.load(std::sync::atomic::Ordering::Relaxed);
        if !p.is_null() {
            unsafe { std::ptr::write_volatile(p, s) };
        }
        return false;
    }
    let _ = LIVE.try_with(|l| {
        let v = l.get() + size as i64;
        l.set(v);
        let _ = PEAK.try_with(|p| {
            if v > p.get() {
                p.set(v)
            }
        });
    });
    true
}

#[inline]
fn on_free(size: usize) {
    let _ = LIVE.try_with(|l| l.set(l.get() - size as i64));
}

unsafe impl GlobalAlloc for Counting {
    unsafe fn alloc(&self, l: Layout) -> *mut u8 {
        if !on_alloc(l.size()) {
            return std::ptr::null_mut();
        }
        System.alloc(l)
    }
    unsafe fn alloc_zeroed(&self, l: Layout) -> *mut u8 {
        if !on_alloc(l.size()) {
            return std::ptr::null_mut();
        }
        System.alloc_zeroed(l)
    }
    unsafe fn dealloc(&self, p: *mut u8, l: Layout) {
        on_free(l.size());
        System.dealloc(p, l)
    }
    unsafe fn realloc(&self, p: *mut u8, l: Layout, new: usize) -> *mut u8 {
        if new > l.size() {
            if !on_alloc(new - l.size()) {
                return std::ptr::null_mut();
            }
            // the request as the allocator sees it is `new` bytes
            let _ = MAXREQ.try_with(|m| {
                if new as u64 > m.get() {
                    m.set(new as u64)
                }
            });
        } else {
            on_free(l.size() - new);
        }
        System.realloc(p, l, new)
    }
}

#[derive(Clone, Copy, Debug, Default)]
pub struct Meter {
    base_live: i64,
}

#[derive(Clone, Copy, Debug, Default)]
pub struct Usage {
    /// peak live bytes above the level at `start`
    pub peak: u64,
    /// largest single request since `start`
    pub max_request: u64,
}

/// Start measuring on this thread.
pub fn start() -> Meter {
    let live = LIVE.with(|l| l.get());
    PEAK.with(|p| p.set(live));
    MAXREQ.with(|m| m.set(0));
    Meter { base_live: live }
}

pub fn stop(m: Meter) -> Usage {
    let peak = PEAK.with(|p| p.get());
    Usage { peak: (peak - m.base_live).max(0) as u64, max_request: MAXREQ.with(|m| m.get()) }
}
