//! Input-shape families for the robustness properties (C06/C07/C08): well-formed or nearly well-formed files
//! enumerated from the reference encoder, one per shortcut of the readers — payload lengths and data
//! types of every metadata item, run-length vectors and flag forms of fragments, chunk/size shapes.
//! They complement the field-substitution neighbourhoods of the baselines (a shape such as "binary year
//! with an empty payload" is several substitutions away from any baseline).

use crate::e3::Baseline;
use crate::props::c09;
use crate::refmp4::build::*;
use crate::refmp4::frag::*;
use crate::refmp4::movie::*;
use crate::refmp4::tree::serialize;

pub fn metadata_shapes() -> Vec<Baseline> {
    let mut out = vec![];
    let items: [[u8; 4]; 4] = [[0xa9, b'n', b'a', b'm'], [0xa9, b'd', b'a', b'y'], *b"covr", *b"desc"];
    for (ii, cc) in items.iter().enumerate() {
        for ty in [0u32, 1, 13, 21] {
            for len in [0usize, 1, 2, 3, 4, 5, 8, 300] {
                for full in [true, false] {
                    let payload: Vec<u8> = (0..len).map(|i| if ty == 1 { b'0' + (i % 10) as u8 } else { (i * 37 + 200) as u8 }).collect();
                    let t = LTrack::simple(1, Codec::Avc, 1000, vec![LSample { size: 2, delta: 40, cts: 0, sync: true }], vec![1]);
                    let mut m = LMovie::new(1000, vec![t]);
                    // the varied item first, then the other three in their ordinary form
                    let mut its = vec![ilst_item(cc, ty, &payload)];
                    for (jj, c2) in items.iter().enumerate() {
                        if jj != ii {
                            its.push(ilst_item(c2, if jj == 2 { 13 } else { 1 }, b"2024"));
                        }
                    }
                    m.moov_extra = vec![udta(vec![meta(full, vec![hdlr(0, 0, b"mdir", ""), ilst(its)])])];
                    out.push(Baseline { name: format!("shape:meta:item{}:type{}:len{}:{}", ii, ty, len, if full { "full" } else { "qt" }), bytes: encode(&m).0, init: None, pairs: false });
                }
            }
        }
    }
    out
}

pub fn fragment_shapes() -> Vec<Baseline> {
    let mut out = vec![];
    let opts = c09::all_opts();
    let mut counts: Vec<Vec<usize>> = vec![vec![]];
    for _ in 0..3 {
        counts = counts.iter().flat_map(|c| (0..=2usize).map(move |n| { let mut d = c.clone(); d.push(n); d })).collect();
    }
    for (oi, o) in opts.iter().enumerate().filter(|(i, _)| i % 11 == 0) {
        for c in counts.iter() {
            let m = LFragMovie {
                movie_ts: 1000,
                tracks: vec![LFragTrack { id: 1, codec: Codec::Avc, timescale: 12800, trex_default_duration: 9 }],
                fragments: c.iter().enumerate().map(|(i, n)| vec![c09::mk_run(1, o, *n, i as u32)]).collect(),
                mehd: None,
                large_moof: oi % 2 == 1,
                offsets_only: false,
                fillers: 0,
            };
            let init = init_nodes(&m);
            let (media, _) = media_nodes(&m);
            let mut all = init.clone();
            all.extend(media.iter().cloned());
            out.push(Baseline { name: format!("shape:frag:opt{}:runs{:?}:one_stream", oi, c), bytes: serialize(&all).0, init: None, pairs: false });
            if oi % 22 == 0 {
                out.push(Baseline { name: format!("shape:frag:opt{}:runs{:?}:separate", oi, c), bytes: serialize(&media).0, init: Some(serialize(&init).0), pairs: false });
            }
        }
    }
    out
}

pub fn progressive_shapes() -> Vec<Baseline> {
    let mut out = vec![];
    for comp in crate::props::c03::compositions(3) {
        for sizes in [[1u32, 1, 1], [0, 0, 0], [0, 2, 0], [2, 0, 1]] {
            for variant in 0..4u8 {
                let samples: Vec<LSample> = (0..3).map(|i| LSample { size: sizes[i], delta: if variant & 1 == 0 { 10 } else { 0 }, cts: if variant & 2 != 0 { -3 } else { 0 }, sync: i != 1 }).collect();
                let mut t = LTrack::simple(1, Codec::Vp9, 1000, samples, comp.clone());
                t.const_size = sizes == [1, 1, 1];
                t.co64 = variant & 1 == 1;
                t.ctts = if variant & 2 != 0 { Some(1) } else { None };
                t.stss = variant >= 2;
                out.push(Baseline { name: format!("shape:prog:chunks{:?}:sizes{:?}:v{}", comp, sizes, variant), bytes: encode(&LMovie::new(1000, vec![t])).0, init: None, pairs: false });
            }
        }
    }
    out
}

/// Scaling shapes: structures replicated K (tracks) x M (fragments) times, and codec configuration records whose inner
/// length fields declare more than their box holds, replicated over K tracks in front of a shared patterned filler.
/// A cost that is linear per replica but touches shared bytes or shared tables is quadratic in the file length; the
/// linear bounds of C07/C08 (64n+.., 128n+..) are exceeded only at these scales, never in the small baselines.
pub fn scaling_shapes() -> Vec<Baseline> {
    use crate::refmp4::tree::{Body, Node};
    let mut out = vec![];
    // (a) K tracks x M movie fragments; each fragment holds no traf, or one traf (tracks taken round-robin)
    for (k, mf) in [(1usize, 4096usize), (16, 1024), (128, 2048), (150, 3000)] {
        for with_traf in [false, true] {
            let m = LFragMovie {
                movie_ts: 1000,
                tracks: (0..k).map(|i| LFragTrack { id: i as u32 + 1, codec: Codec::Aac, timescale: 48000, trex_default_duration: 1024 }).collect(),
                fragments: vec![],
                mehd: None,
                large_moof: false,
                offsets_only: false,
                fillers: 0,
            };
            let mut all = init_nodes(&m);
            for f in 0..mf {
                let mut kids = vec![mfhd(f as u32 + 1)];
                if with_traf {
                    let th = Tfhd { version: 0, extra_flags: 0x020000, track_id: (f % k) as u32 + 1, base_data_offset: None, sample_description_index: None, default_sample_duration: None, default_sample_size: Some(1), default_sample_flags: None };
                    kids.push(Node::kids(b"traf", vec![tfhd(&th), tfdt(0, f as u64 * 1024)]));
                }
                all.push(Node::kids(b"moof", kids));
            }
            out.push(Baseline { name: format!("shape:scale:tracks{}:moofs{}:{}", k, mf, if with_traf { "one_traf_each" } else { "no_traf" }), bytes: serialize(&all).0, init: None, pairs: false });
        }
    }
    // (e) K audio tracks whose ES descriptor declares a length that reaches the end of the file, followed inside the box
    // by a descriptor that hops to a shared tail of empty descriptors (tag 1, length 0) in a trailing free box
    for (k, tail) in [(50usize, 25_000usize), (200, 100_000)] {
        let tracks: Vec<LTrack> = (0..k).map(|i| LTrack::simple(i as u32 + 1, Codec::Aac, 48000, vec![LSample { size: 1, delta: 1024, cts: 0, sync: true }], vec![1])).collect();
        let mut m = LMovie::new(1000, tracks);
        m.mdat_first = true;
        let mut tail_bytes = Vec::with_capacity(tail);
        for _ in 0..tail / 2 {
            tail_bytes.push(1u8);
            tail_bytes.push(0u8);
        }
        m.top_back = vec![Node::leaf(b"free", tail_bytes)];
        let mut ns = nodes(&m);
        fn patch_esds(n: &mut Node) {
            if &n.cc == b"esds" {
                if let Body::Leaf(p) = &mut n.body {
                    if p.len() > 6 && p[4] == 3 && p[5] < 0x80 {
                        let mut nb = p[..5].to_vec();
                        nb.extend_from_slice(&[0x80, 0x80, 0x80, 0x00]); // ES descriptor length: patched below
                        nb.extend_from_slice(&p[6..]);
                        nb.extend_from_slice(&[0x01, 0x80, 0x80, 0x80, 0x00]); // hop descriptor: patched below
                        *p = nb;
                    }
                }
            }
            if let Some(k) = n.children_mut() {
                for c in k.iter_mut() {
                    patch_esds(c);
                }
            }
        }
        for n in ns.iter_mut() {
            patch_esds(n);
        }
        let mut bytes = serialize(&ns).0;
        let eof = bytes.len();
        let tail_start = eof - tail / 2 * 2;
        let put = |v: &mut [u8], at: usize, x: usize| {
            v[at] = 0x80 | ((x >> 21) & 0x7f) as u8;
            v[at + 1] = 0x80 | ((x >> 14) & 0x7f) as u8;
            v[at + 2] = 0x80 | ((x >> 7) & 0x7f) as u8;
            v[at + 3] = (x & 0x7f) as u8;
        };
        let mut i = 0usize;
        while i + 20 < tail_start {
            if &bytes[i..i + 4] == b"esds" && bytes[i + 8] == 3 {
                let es_start = i + 13;
                put(&mut bytes, i + 9, eof - es_start);
                let mut j = es_start;
                while j + 5 < tail_start && bytes[j..j + 5] != [0x01, 0x80, 0x80, 0x80, 0x00] {
                    j += 1;
                }
                put(&mut bytes, j + 1, tail_start - (j + 5));
                i = j;
            }
            i += 1;
        }
        out.push(Baseline { name: format!("shape:scale:esds_descriptor_to_eof_x{}_tail{}", k, tail), bytes, init: None, pairs: false });
    }
    // (d) replicated overruns: M movie fragments in the second half of the file, in each of which the run declares a size
    // that reaches from its own start to the end of the file (and a sample count to match) while traf and moof keep
    // their true sizes.  A reader refuses the first one; one that bounds a child by the wrong end reads the rest of the
    // file once per fragment.
    for mf in [100usize, 400] {
        let m = LFragMovie { movie_ts: 1000, tracks: vec![LFragTrack { id: 1, codec: Codec::Avc, timescale: 12800, trex_default_duration: 9 }], fragments: vec![], mehd: None, large_moof: false, offsets_only: false, fillers: 0 };
        let mut all = init_nodes(&m);
        all.push(Node::leaf(b"free", vec![0u8; mf * 80]));
        for f in 0..mf {
            let th = Tfhd { version: 0, extra_flags: 0x020000, track_id: 1, base_data_offset: None, sample_description_index: None, default_sample_duration: None, default_sample_size: Some(1), default_sample_flags: None };
            let tr = Trun { version: 0, sample_count: 1, data_offset: None, first_sample_flags: None, durations: Some(vec![1]), sizes: None, flags_: None, cts: None };
            all.push(Node::kids(b"moof", vec![mfhd(f as u32 + 1), Node::kids(b"traf", vec![tfhd(&th), trun(&tr)])]));
        }
        let mut bytes = serialize(&all).0;
        let n = bytes.len();
        // patch every trun: size -> up to the end of the file (a multiple of 4 beyond its 16 fixed bytes), count to match
        let mut p = 0usize;
        while p + 8 <= n {
            let s = u32::from_be_bytes([bytes[p], bytes[p + 1], bytes[p + 2], bytes[p + 3]]) as usize;
            let cc = [bytes[p + 4], bytes[p + 5], bytes[p + 6], bytes[p + 7]];
            if &cc == b"moof" || &cc == b"traf" {
                p += 8;
                continue;
            }
            if &cc == b"trun" {
                let avail = (n - p - 16) / 4 * 4 + 16;
                bytes[p..p + 4].copy_from_slice(&(avail as u32).to_be_bytes());
                bytes[p + 12..p + 16].copy_from_slice(&(((avail - 16) / 4) as u32).to_be_bytes());
            }
            p += s.max(8);
        }
        out.push(Baseline { name: format!("shape:scale:replicated_overrun_trun_to_eof_x{}", mf), bytes, init: None, pairs: false });
    }
    // (c) nested malformed chains in front of a shared tail: d meta boxes, each declared to reach the end of its parent,
    // each holding an item list (declared to reach the tail) whose first item has size 0, the next meta box being the
    // content of that list; behind the chain k empty free boxes and a handler box.  A reader stops at the first
    // malformed item (linear); one that carries on after a failed child re-walks the tail once per level.
    for (d, k) in [(290usize, 1020usize), (1160, 4080)] {
        for in_udta in [true, false] {
            let mut tail: Vec<u8> = vec![];
            for _ in 0..k {
                tail.extend_from_slice(&[0, 0, 0, 8, b'f', b'r', b'e', b'e']);
            }
            let h = serialize(&[hdlr(0, 0, b"mdir", "")]).0;
            tail.extend_from_slice(&h);
            let chain_len = 28 * d;
            let total = chain_len + tail.len();
            let mut v: Vec<u8> = Vec::with_capacity(total);
            for i in 0..d {
                let p = 28 * i;
                v.extend_from_slice(&((total - p) as u32).to_be_bytes());
                v.extend_from_slice(b"meta");
                v.extend_from_slice(&[0, 0, 0, 0]);
                v.extend_from_slice(&((chain_len - (p + 12)) as u32).to_be_bytes());
                v.extend_from_slice(b"ilst");
                v.extend_from_slice(&[0, 0, 0, 0, 0xa9, b'n', b'a', b'm']);
            }
            v.extend_from_slice(&tail);
            let t = LTrack::simple(1, Codec::Avc, 1000, vec![LSample { size: 1, delta: 10, cts: 0, sync: true }], vec![1]);
            let mut m = LMovie::new(1000, vec![t]);
            m.moov_extra = if in_udta {
                vec![Node::leaf(b"udta", v)]
            } else {
                // the same chain directly in moov: the first meta box of the chain is a child of moov; its declared size
                // covers the whole chain and tail
                let first_size = total;
                let payload = v[8..first_size].to_vec();
                vec![Node::leaf(b"meta", payload)]
            };
            out.push(Baseline { name: format!("shape:scale:nested_malformed_meta_chain:{}x{}:{}", d, k, if in_udta { "in_udta" } else { "in_moov" }), bytes: encode(&m).0, init: None, pairs: false });
        }
    }
    // (b) K tracks whose decoder configuration record declares a first parameter set of 65535 bytes (and further ones)
    // although the box ends right after the length field; behind the movie header a filler of 0x01 bytes (every
    // length read there is 0x0101).  hvcC: N parameter sets; avcC: 31 + 1.
    for (codec, k, nals) in [(Codec::Hevc, 1usize, 2000u16), (Codec::Hevc, 32, 2000), (Codec::Hevc, 128, 2000), (Codec::Avc, 1, 31), (Codec::Avc, 128, 31)] {
        let tracks: Vec<LTrack> = (0..k).map(|i| LTrack::simple(i as u32 + 1, codec, 1000, vec![LSample { size: 1, delta: 10, cts: 0, sync: true }], vec![1])).collect();
        let mut m = LMovie::new(1000, tracks);
        m.mdat_first = true;
        let filler = 65535 + nals as usize * 259 + 70000;
        m.top_back = vec![Node::leaf(b"free", vec![1u8; filler])];
        let mut ns = nodes(&m);
        fn patch(n: &mut Node, nals: u16) {
            if &n.cc == b"hvcC" {
                if let Body::Leaf(p) = &mut n.body {
                    // ... numOfArrays, then per array: type, numNalus(2), per NAL: length(2), bytes
                    let fixed = 22;
                    p.truncate(fixed);
                    p.push(1); // one array
                    p.push(0xa0); // complete, type 32
                    p.extend_from_slice(&nals.to_be_bytes());
                    p.extend_from_slice(&0xffffu16.to_be_bytes());
                }
            } else if &n.cc == b"avcC" {
                if let Body::Leaf(p) = &mut n.body {
                    p.truncate(5);
                    p.push(0xe0 | (nals.min(31) as u8));
                    p.extend_from_slice(&0xffffu16.to_be_bytes());
                }
            }
            if let Some(k) = n.children_mut() {
                for c in k.iter_mut() {
                    patch(c, nals);
                }
            }
        }
        for n in ns.iter_mut() {
            patch(n, nals);
        }
        out.push(Baseline { name: format!("shape:scale:overreading_{}_x{}", if codec == Codec::Hevc { "hvcC" } else { "avcC" }, k), bytes: serialize(&ns).0, init: None, pairs: false });
    }
    out
}

/// Duplicate shapes: every box of every baseline once more, as a sibling right behind itself (ancestor sizes adjusted):
/// several boxes of a kind where a reader expects one.
pub fn duplicate_shapes(baselines: &[Baseline]) -> Vec<Baseline> {
    fn walk(nodes: &[crate::refmp4::parse::Node], anc: &mut Vec<u64>, bytes: &[u8], name: &str, path: String, out: &mut Vec<Baseline>, init: &Option<Vec<u8>>) {
        for nd in nodes {
            let p = format!("{}/{}", path, String::from_utf8_lossy(&nd.cc));
            if nd.header == 8 && nd.size <= 4096 && anc.len() >= 1 {
                let start = nd.start as usize;
                let end = start + nd.size;
                let mut b = bytes[..end].to_vec();
                b.extend_from_slice(&bytes[start..end]);
                b.extend_from_slice(&bytes[end..]);
                let mut ok = true;
                for a in anc.iter() {
                    let a = *a as usize;
                    let s = u32::from_be_bytes([b[a], b[a + 1], b[a + 2], b[a + 3]]);
                    if s == 1 || s == 0 {
                        ok = false;
                        break;
                    }
                    let s2 = s as u64 + nd.size as u64;
                    if s2 > u32::MAX as u64 {
                        ok = false;
                        break;
                    }
                    b[a..a + 4].copy_from_slice(&(s2 as u32).to_be_bytes());
                }
                if ok {
                    out.push(Baseline { name: format!("shape:dup:{}:{}@{}", name, p, nd.start), bytes: b, init: init.clone(), pairs: false });
                }
            }
            anc.push(nd.start);
            walk(&nd.kids, anc, bytes, name, p, out, init);
            anc.pop();
        }
    }
    let mut out = vec![];
    for b in baselines {
        if let Ok(t) = crate::refmp4::parse::tree(&b.bytes, 0) {
            walk(&t, &mut vec![], &b.bytes, &b.name, String::new(), &mut out, &b.init);
        }
    }
    out
}

pub fn all() -> Vec<Baseline> {
    let mut v = metadata_shapes();
    v.extend(fragment_shapes());
    v.extend(progressive_shapes());
    v.extend(scaling_shapes());
    v
}
