//! Input-shape families for the robustness properties (C06/C07/C08): well-formed or nearly well-formed files
//! enumerated from the reference encoder, one per shortcut of the readers — payload lengths and data
//! types of every metadata item, run-length vectors and flag forms of fragments, chunk/size shapes.
//! They complement the field-substitution neighbourhoods of the baselines (a shape such as "binary year
//! with an empty payload" is several substitutions away from any baseline).

use crate::e3::Baseline;
use crate::props::c09;
use crate::refmp4::build::*;
use crate::refmp4::frag::*;
use crate::refmp4::movie::*;
use crate::refmp4::tree::serialize;

pub fn metadata_shapes() -> Vec<Baseline> {
    let mut out = vec![];
    let items: [[u8; 4]; 4] = [[0xa9, b'n', b'a', b'm'], [0xa9, b'd', b'a', b'y'], *b"covr", *b"desc"];
    for (ii, cc) in items.iter().enumerate() {
        for ty in [0u32, 1, 13, 21] {
            for len in [0usize, 1, 2, 3, 4, 5, 8, 300] {
                for full in [true, false] {
                    let payload: Vec<u8> = (0..len).map(|i| if ty == 1 { b'0' + (i % 10) as u8 } else { (i * 37 + 200) as u8 }).collect();
                    let t = LTrack::simple(1, Codec::Avc, 1000, vec![LSample { size: 2, delta: 40, cts: 0, sync: true }], vec![1]);
                    let mut m = LMovie::new(1000, vec![t]);
                    // the varied item first, then the other three in their ordinary form
                    let mut its = vec![ilst_item(cc, ty, &payload)];
                    for (jj, c2) in items.iter().enumerate() {
                        if jj != ii {
                            its.push(ilst_item(c2, if jj == 2 { 13 } else { 1 }, b"2024"));
                        }
                    }
                    m.moov_extra = vec![udta(vec![meta(full, vec![hdlr(0, 0, b"mdir", ""), ilst(its)])])];
                    out.push(Baseline { name: format!("shape:meta:item{}:type{}:len{}:{}", ii, ty, len, if full { "full" } else { "qt" }), bytes: encode(&m).0, init: None, pairs: false });
                }
            }
        }
    }
    out
}

pub fn fragment_shapes() -> Vec<Baseline> {
    let mut out = vec![];
    let opts = c09::all_opts();
    let mut counts: Vec<Vec<usize>> = vec![vec![]];
    for _ in 0..3 {
        counts = counts.iter().flat_map(|c| (0..=2usize).map(move |n| { let mut d = c.clone(); d.push(n); d })).collect();
    }
    for (oi, o) in opts.iter().enumerate().filter(|(i, _)| i % 11 == 0) {
        for c in counts.iter() {
            let m = LFragMovie {
                movie_ts: 1000,
                tracks: vec![LFragTrack { id: 1, codec: Codec::Avc, timescale: 12800, trex_default_duration: 9 }],
                fragments: c.iter().enumerate().map(|(i, n)| vec![c09::mk_run(1, o, *n, i as u32)]).collect(),
                mehd: None,
                large_moof: oi % 2 == 1,
                offsets_only: false,
            };
            let init = init_nodes(&m);
            let (media, _) = media_nodes(&m);
            let mut all = init.clone();
            all.extend(media.iter().cloned());
            out.push(Baseline { name: format!("shape:frag:opt{}:runs{:?}:one_stream", oi, c), bytes: serialize(&all).0, init: None, pairs: false });
            if oi % 22 == 0 {
                out.push(Baseline { name: format!("shape:frag:opt{}:runs{:?}:separate", oi, c), bytes: serialize(&media).0, init: Some(serialize(&init).0), pairs: false });
            }
        }
    }
    out
}

pub fn progressive_shapes() -> Vec<Baseline> {
    let mut out = vec![];
    for comp in crate::props::c03::compositions(3) {
        for sizes in [[1u32, 1, 1], [0, 0, 0], [0, 2, 0], [2, 0, 1]] {
            for variant in 0..4u8 {
                let samples: Vec<LSample> = (0..3).map(|i| LSample { size: sizes[i], delta: if variant & 1 == 0 { 10 } else { 0 }, cts: if variant & 2 != 0 { -3 } else { 0 }, sync: i != 1 }).collect();
                let mut t = LTrack::simple(1, Codec::Vp9, 1000, samples, comp.clone());
                t.const_size = sizes == [1, 1, 1];
                t.co64 = variant & 1 == 1;
                t.ctts = if variant & 2 != 0 { Some(1) } else { None };
                t.stss = variant >= 2;
                out.push(Baseline { name: format!("shape:prog:chunks{:?}:sizes{:?}:v{}", comp, sizes, variant), bytes: encode(&LMovie::new(1000, vec![t])).0, init: None, pairs: false });
            }
        }
    }
    out
}

pub fn all() -> Vec<Baseline> {
    let mut v = metadata_shapes();
    v.extend(fragment_shapes());
    v.extend(progressive_shapes());
    v
}
