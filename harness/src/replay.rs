//! `mp4mc replay <path>`: re-execute one recorded violation without the explorer.
//! Exit 1 when the recorded clause reproduces, 0 when it does not, 2 when the case kind cannot be replayed.

use crate::common::*;
use crate::hist::{Family, Local};
use crate::mux::*;
use serde_json::Value;

fn print_new(l: &Local, clause: &str) -> i32 {
    let mut hit = false;
    for (k, (n, vs)) in l.violations.0.iter() {
        println!("reproduced class [{}] x{}", k, n);
        for v in vs {
            println!("  observed: {}", v.observed);
            println!("  expected: {}", v.expected);
            if v.clause == clause {
                hit = true;
            }
        }
    }
    if hit {
        println!("REPRODUCED clause={}", clause);
        1
    } else {
        println!("not reproduced (clause {} did not fail on the current tree)", clause);
        0
    }
}

pub fn run(path: &str) -> i32 {
    let txt = match std::fs::read_to_string(path) {
        Ok(t) => t,
        Err(e) => {
            eprintln!("cannot read {}: {}", path, e);
            return 2;
        }
    };
    let v: Value = serde_json::from_str(&txt).expect("replay file is JSON");
    let prop = v["property"].as_str().unwrap_or("?").to_string();
    let clause = v["clause"].as_str().unwrap_or("?").to_string();
    let case = &v["case"];
    println!("replay property={} clause={} profile(recorded)={} profile(now)={}", prop, clause, v["profile"], profile_name());
    let engine = case["engine"].as_str().unwrap_or(if case.get("history").is_some() { "hist" } else { "?" });
    match engine {
        "hist" => {
            let movie = MovieSpec::from_json(&case["config"]);
            let hist: Vec<Op> = case["history"].as_array().unwrap().iter().map(Op::from_json).collect();
            let seed = case["seed"].as_u64().unwrap_or(0);
            let fam = Family { name: case["family"].as_str().unwrap_or("replay").to_string(), movie, alphabet: vec![], max_len: 0, filter: None };
            let mut l = Local::default();
            match prop.as_str() {
                "C02" => {
                    let n = fam.movie.tracks.len();
                    match mux(seed, &fam.movie, &hist) {
                        Ok(o) => {
                            let model = reference(seed, n, &hist);
                            match crate::refmp4::validate::check_muxer_output(&o.bytes, &model, &fam.movie, &(0..n).collect::<Vec<_>>()) {
                                Some((c, d)) => {
                                    println!("validator: {} {}", c, d);
                                    return if c == clause { println!("REPRODUCED clause={}", clause); 1 } else { 0 };
                                }
                                None => {
                                    println!("validator: output is valid");
                                    return 0;
                                }
                            }
                        }
                        Err(e) => {
                            println!("mux: {}", e);
                            return 1;
                        }
                    }
                }
                _ => {
                    crate::props::c01::judge(&prop, seed, &fam, &hist, false, &mut l);
                }
            }
            print_new(&l, &clause)
        }
        "e3" => {
            let name = case["baseline"].as_str().unwrap_or("");
            let all = crate::e3::baselines(Tier::Thorough, case["seed"].as_u64().unwrap_or(0));
            let b = match all.iter().find(|b| b.name == name) {
                Some(b) => b,
                None => {
                    eprintln!("unknown baseline {}", name);
                    return 2;
                }
            };
            let mut bytes = b.bytes.clone();
            for p in case["patches"].as_array().cloned().unwrap_or_default() {
                let pos = p[0].as_u64().unwrap() as usize;
                let pb = unhex(p[1].as_str().unwrap());
                bytes[pos..pos + pb.len()].copy_from_slice(&pb);
            }
            let init = b.init.as_ref().map(|i| open(i).unwrap());
            let r = crate::e3::run_case(&bytes, init.as_ref(), false, false, false);
            let n = bytes.len() as u64;
            println!("opened={} open_err={:?} open_panic={:?}", r.opened, r.open_err, r.open_panic);
            println!("call panics: {:?}", r.call_panics);
            println!("open ops={} (bound {}) budget_hit={} call budget hit={:?} cpu open={:.3}s calls={:.3}s", r.open_ops, crate::e3::ops_bound(n), r.open_budget_hit, r.call_budget_hit, r.cpu_open_s, r.cpu_calls_s);
            println!("alloc open={:?} calls={:?} (bound {})", r.alloc_open, r.alloc_calls, crate::e3::mem_bound(n));
            let bad = match prop.as_str() {
                "C06" => r.open_panic.is_some() || !r.call_panics.is_empty(),
                "C07" => r.open_budget_hit || r.call_budget_hit.is_some() || r.cpu_open_s > crate::e3::CPU_BOUND_S || r.cpu_calls_s > crate::e3::CPU_BOUND_S,
                _ => r.alloc_open.max_request > crate::e3::mem_bound(n) || r.alloc_calls.max_request > crate::e3::mem_bound(n) || r.alloc_open.peak > crate::e3::mem_bound(n) || r.alloc_calls.peak > crate::e3::mem_bound(n),
            };
            if bad {
                println!("REPRODUCED property={}", prop);
                1
            } else {
                println!("not reproduced");
                0
            }
        }
        _ => {
            // generic: if the case carries the concrete input, open it and dump what the reader answers
            if let Some(h) = case["input_hex"].as_str() {
                let parts: Vec<&str> = h.split('|').collect();
                let bytes = unhex(parts[parts.len() - 1]);
                println!("input: {} bytes (engine {})", bytes.len(), engine);
                let init_bytes = if parts.len() == 2 { Some(unhex(parts[0])) } else { None };
                let init = init_bytes.as_ref().map(|i| open(i).unwrap());
                let r = crate::e3::run_case(&bytes, init.as_ref(), false, true, true);
                println!("opened={} err={:?} panic={:?}", r.opened, r.open_err, r.open_panic);
                for (c, s) in r.digest.iter().filter(|(c, _)| c.starts_with("read_sample") || c.starts_with("sample_") || c.starts_with("metadata")) {
                    println!("  {} = {}", c, s);
                }
                println!("recorded observed: {}", v["observed"]);
                println!("recorded expected: {}", v["expected"]);
                println!("(compare by eye; re-run `bin/check {} quick` for the verdict)", prop);
                return 2;
            }
            println!("case: {}", serde_json::to_string_pretty(case).unwrap());
            println!("this case kind is replayed by re-running `bin/check {} quick` (the enumeration is deterministic)", prop);
            2
        }
    }
}
