//! E1 — exhaustive enumeration of operation histories up to a depth over a finite alphabet.

use crate::common::*;
use crate::mux::*;
use rayon::prelude::*;
use serde_json::{json, Value};
use std::collections::{BTreeMap, HashSet};
use std::time::{Duration, Instant};

pub struct Family {
    pub name: String,
    pub movie: MovieSpec,
    pub alphabet: Vec<Op>,
    pub max_len: usize,
    /// Optional: restrict to histories for which this holds (still enumerated, just skipped and counted as skipped).
    pub filter: Option<fn(&[Op]) -> bool>,
}

impl Family {
    pub fn total(&self) -> u64 {
        let a = self.alphabet.len() as u64;
        let mut t = 0u64;
        let mut p = 1u64;
        for _ in 0..=self.max_len {
            t += p;
            p = p.saturating_mul(a);
        }
        t
    }
    /// Decode index -> history (shorter histories first; within a length, lexicographic with the
    /// alphabet's boring-first order).
    pub fn decode(&self, mut idx: u64, out: &mut Vec<Op>) {
        out.clear();
        let a = self.alphabet.len() as u64;
        let mut len = 0usize;
        let mut p = 1u64;
        while idx >= p {
            idx -= p;
            p *= a;
            len += 1;
        }
        // idx is now the index among histories of length `len`; most significant digit = first op
        let mut digits = vec![0usize; len];
        for i in (0..len).rev() {
            digits[i] = (idx % a) as usize;
            idx /= a;
        }
        for d in digits {
            out.push(self.alphabet[d]);
        }
    }
    pub fn describe(&self) -> Value {
        json!({"family": self.name, "movie": self.movie.to_json(), "alphabet_size": self.alphabet.len(),
               "max_len": self.max_len, "histories": self.total(),
               "alphabet": if self.alphabet.len() <= 24 { hist_json(&self.alphabet) } else { json!(format!("{} ops (product alphabet, see DESIGN)", self.alphabet.len())) }})
    }
    fn contains(&self, h: &[Op], set: &HashSet<(u32, u32, u32, i32, bool)>) -> bool {
        h.len() <= self.max_len && h.iter().all(|o| set.contains(&(o.track, o.size, o.dur, o.off, o.sync)))
    }
}

/// Per-thread accumulator.
#[derive(Default)]
pub struct Local {
    pub evaluations: u64,
    pub transitions: u64,
    pub validated: u64,
    pub nontrivial: u64,
    pub skipped: u64,
    pub outcomes: BTreeMap<String, u64>,
    pub violations: VioBag,
    pub samples: Vec<Value>,
}

impl Local {
    pub fn outcome(&mut self, k: &str) {
        *self.outcomes.entry(k.to_string()).or_insert(0) += 1;
    }
    fn merge(mut self, o: Local) -> Local {
        self.evaluations += o.evaluations;
        self.transitions += o.transitions;
        self.validated += o.validated;
        self.nontrivial += o.nontrivial;
        self.skipped += o.skipped;
        for (k, v) in o.outcomes {
            *self.outcomes.entry(k).or_insert(0) += v;
        }
        self.violations.merge(o.violations);
        if self.samples.len() < 6 {
            self.samples.extend(o.samples);
            self.samples.truncate(6);
        }
        self
    }
}

pub struct Summary {
    pub total: Local,
    pub families: Vec<Value>,
    pub caps_hit: Vec<String>,
}

/// Enumerate every history of every family; `f(family, history, is_duplicate_of_earlier_family, local)`.
pub fn explore<F>(families: &[Family], wall_cap: Duration, rep: &Reporter, f: F) -> Summary
where
    F: Fn(&Family, &[Op], bool, &mut Local) + Sync,
{
    let start = Instant::now();
    let mut total = Local::default();
    let mut fams = vec![];
    let mut caps = vec![];
    let keys: Vec<String> = families.iter().map(|f| f.movie.to_json().to_string()).collect();
    let sets: Vec<HashSet<(u32, u32, u32, i32, bool)>> =
        families.iter().map(|f| f.alphabet.iter().map(|o| (o.track, o.size, o.dur, o.off, o.sync)).collect()).collect();
    for (fi, fam) in families.iter().enumerate() {
        let n = fam.total();
        let t0 = Instant::now();
        let capped = std::sync::atomic::AtomicBool::new(false);
        let loc = (0..n as usize)
            .into_par_iter()
            .with_min_len(256)
            .fold(
                || (Local::default(), Vec::<Op>::new()),
                |(mut l, mut h), idx| {
                    let idx = idx as u64;
                    if capped.load(std::sync::atomic::Ordering::Relaxed) {
                        l.skipped += 1;
                        return (l, h);
                    }
                    if idx % 4096 == 0 && start.elapsed() > wall_cap {
                        capped.store(true, std::sync::atomic::Ordering::Relaxed);
                    }
                    fam.decode(idx, &mut h);
                    if let Some(flt) = fam.filter {
                        if !flt(&h) {
                            l.skipped += 1;
                            return (l, h);
                        }
                    }
                    let dup = (0..fi).any(|e| keys[e] == keys[fi] && families[e].filter.is_none() && families[e].contains(&h, &sets[e]));
                    l.evaluations += 1;
                    if l.samples.is_empty() && idx % 9973 == 7 {
                        l.samples.push(json!({"family": fam.name, "history": hist_json(&h)}));
                    }
                    f(fam, &h, dup, &mut l);
                    (l, h)
                },
            )
            .map(|(l, _)| l)
            .reduce(Local::default, Local::merge);
        let mut d = fam.describe();
        d["evaluated"] = json!(loc.evaluations);
        d["skipped"] = json!(loc.skipped);
        d["wall_s"] = json!(t0.elapsed().as_secs_f64());
        if capped.load(std::sync::atomic::Ordering::Relaxed) {
            caps.push(format!("family {} stopped by the wall-time cap after {} of {} histories", fam.name, loc.evaluations, n));
            d["complete"] = json!(false);
        } else {
            d["complete"] = json!(true);
        }
        fams.push(d);
        total = total.merge(loc);
    }
    let viols = std::mem::take(&mut total.violations);
    viols.drain_into(rep);
    Summary { total, families: fams, caps_hit: caps }
}

pub fn standard_evidence(ev: &mut Evidence, s: &Summary, rule: &str) {
    ev.set("evaluations", json!(s.total.evaluations));
    ev.set("states", json!(s.total.evaluations));
    ev.set("transitions", json!(s.total.transitions));
    ev.set("traces_validated_against_impl", json!(s.total.validated));
    ev.set("distinct_nontrivial", json!(s.total.nontrivial));
    ev.set("rule", json!(rule));
    ev.set("families", Value::Array(s.families.clone()));
    ev.set("caps_hit", json!(s.caps_hit));
    ev.set("exhaustive", json!(s.caps_hit.is_empty()));
    ev.set("outcome_classes", Value::Object(s.total.outcomes.iter().map(|(k, v)| (k.clone(), json!(v))).collect()));
    let mut samples = s.total.samples.clone();
    if samples.is_empty() {
        samples.push(json!("(no sample recorded)"));
    }
    ev.set("samples", Value::Array(samples));
}
