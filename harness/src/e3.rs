//! E3 — environment explorer: data deviations (field substitutions discovered dynamically from the
//! parser's own reads), bounded by the number of deviations (0, 1, 2).  Serves C06, C07, C08.

use crate::common::*;
use crate::env::alloc;
use crate::env::stream::{Ctl, SR};
use crate::mux::*;
use crate::probe::Prober;
use crate::worker::*;
use mp4::*;
use serde_json::{json, Value};
use std::collections::BTreeSet;

#[derive(Clone)]
pub struct Baseline {
    pub name: String,
    pub bytes: Vec<u8>,
    /// Some(init): `bytes` is a media segment opened with read_fragment_header against `init`.
    pub init: Option<Vec<u8>>,
    /// explore pairs of deviations on this baseline in this tier
    pub pairs: bool,
}

impl Baseline {
    /// Reduced pairs (both fields over the 3-4 value `reduced_menu`) are explored on every baseline that does not get
    /// full pairs: in the quick tier on the baselines of at most 1500 bytes, in the thorough tier on all.
    pub fn rpairs(&self, tier: Tier) -> bool {
        !self.pairs && !self.name.starts_with("shape:") && (tier == Tier::Thorough || self.bytes.len() <= 1500)
    }
}

/// The extremes of a field: zero, all ones, and the neighbour of the current value.
pub fn reduced_menu(len: u32, cur: &[u8]) -> Vec<Vec<u8>> {
    let l = len as usize;
    let mut out: Vec<Vec<u8>> = vec![vec![0; l], vec![0xff; l]];
    match len {
        1 | 3 => {
            let mut x = cur.to_vec();
            x[l - 1] ^= 1;
            out.push(x);
        }
        2 => out.push(u16::from_be_bytes([cur[0], cur[1]]).wrapping_add(1).to_be_bytes().to_vec()),
        4 => out.push(u32::from_be_bytes([cur[0], cur[1], cur[2], cur[3]]).wrapping_add(1).to_be_bytes().to_vec()),
        8 => {
            // as a box header: the size word alone at 0 / all ones / +1
            for v in [0u32, u32::MAX, u32::from_be_bytes([cur[0], cur[1], cur[2], cur[3]]).wrapping_add(1)] {
                let mut x = cur.to_vec();
                x[..4].copy_from_slice(&v.to_be_bytes());
                out.push(x);
            }
        }
        _ => {}
    }
    let mut seen = BTreeSet::new();
    out.retain(|v| v.as_slice() != cur && seen.insert(v.clone()));
    out
}

pub fn canned(name: &str) -> Vec<u8> {
    std::fs::read(format!("/repo/tests/samples/{}", name)).unwrap_or_else(|e| machinery_failure(&format!("cannot read canned file {}: {}", name, e)))
}

/// A muxer output that exercises every table the muxer can write (ctts, stss, several chunks, mixed sizes).
pub fn muxed_baseline(seed: u64, kinds: &[Kind]) -> Vec<u8> {
    let tracks: Vec<TrackSpec> = kinds.iter().enumerate().map(|(i, k)| TrackSpec::new(*k, if i == 0 { 1000 } else { 48000 })).collect();
    let movie = MovieSpec::new(1000, tracks);
    let mut h = vec![];
    for (i, _) in kinds.iter().enumerate() {
        let t = i as u32 + 1;
        let ts = if i == 0 { 1000 } else { 48000 };
        h.push(Op { track: t, size: 5, dur: ts / 2, off: 0, sync: true });
        h.push(Op { track: t, size: 3, dur: ts / 2, off: 7, sync: false });
        h.push(Op { track: t, size: 4, dur: ts, off: -7, sync: false });
        h.push(Op { track: t, size: 0, dur: ts / 4, off: 0, sync: true });
        h.push(Op { track: t, size: 2, dur: ts / 4, off: 0, sync: false });
    }
    match mux(seed, &movie, &h) {
        Ok(o) => o.bytes,
        Err(e) => machinery_failure(&format!("baseline mux failed: {}", e)),
    }
}

pub fn baselines(tier: Tier, seed: u64) -> Vec<Baseline> {
    let th = tier == Tier::Thorough;
    let mut v = vec![];
    v.push(Baseline { name: "mux:avc+aac".into(), bytes: muxed_baseline(seed, &[Kind::Avc, Kind::Aac]), init: None, pairs: th });
    for k in [Kind::Hevc, Kind::Vp9, Kind::Ttxt] {
        v.push(Baseline { name: format!("mux:{}", k.name()), bytes: muxed_baseline(seed, &[k]), init: None, pairs: false });
    }
    v.extend(crate::refmp4::kitchen::baselines(tier));
    v.push(Baseline { name: "canned:minimal.mp4".into(), bytes: canned("minimal.mp4"), init: None, pairs: false });
    v.push(Baseline { name: "canned:minimal_init.mp4".into(), bytes: canned("minimal_init.mp4"), init: None, pairs: th });
    v.push(Baseline { name: "canned:minimal_fragment.m4s".into(), bytes: canned("minimal_fragment.m4s"), init: Some(canned("minimal_init.mp4")), pairs: th });
    v.push(Baseline { name: "canned:extended_audio_object_type.mp4".into(), bytes: canned("extended_audio_object_type.mp4"), init: None, pairs: false });
    if th {
        v.push(Baseline { name: "canned:big_buck_bunny_metadata.m4v".into(), bytes: canned("big_buck_bunny_metadata.m4v"), init: None, pairs: false });
    }
    v
}

#[derive(Clone, Debug, PartialEq, Eq, PartialOrd, Ord)]
pub struct Field {
    pub pos: u64,
    pub len: u32,
}

#[derive(Clone, Debug)]
pub struct Patch {
    pub pos: u64,
    pub bytes: Vec<u8>,
    /// further sites substituted together with the first (structured deviations: overrun chains, extreme pairs)
    pub more: Vec<(u64, Vec<u8>)>,
}

impl Patch {
    pub fn one(pos: u64, bytes: Vec<u8>) -> Patch {
        Patch { pos, bytes, more: vec![] }
    }
    pub fn sites(&self) -> Vec<(u64, &Vec<u8>)> {
        std::iter::once((self.pos, &self.bytes)).chain(self.more.iter().map(|(p, b)| (*p, b))).collect()
    }
}

/// Overrun chains: for every box of the file and every suffix of its ancestor path, the 32-bit size fields of all boxes
/// on that suffix are raised together to huge, mutually consistent values (each still fits in the one above), alone and
/// together with a huge value in the word where tables keep their entry count.  A single oversized size is caught by
/// the parent's bound; a chain is what reaches a container that validates its children too late.
pub fn overrun_chains(bytes: &[u8]) -> Vec<Patch> {
    fn walk(nodes: &[crate::refmp4::parse::Node], path: &mut Vec<(u64, usize)>, out: &mut Vec<Patch>, n: u64) {
        for nd in nodes {
            path.push((nd.start, nd.header));
            let depth = path.len();
            for j in 0..depth {
                if path[j..].iter().any(|(_, h)| *h != 8) {
                    continue;
                }
                let sites: Vec<(u64, Vec<u8>)> = path[j..].iter().enumerate().map(|(i, (start, _))| (*start, (0x7fff_ff00u32 - 0x100 * i as u32).to_be_bytes().to_vec())).collect();
                for count_at in [None, Some(12u64), Some(16u64)] {
                    let mut s = sites.clone();
                    if let Some(c) = count_at {
                        if nd.start + c + 4 > n || nd.size < (c + 4) as usize || !nd.kids.is_empty() {
                            continue;
                        }
                        s.push((nd.start + c, 0x0fff_ff00u32.to_be_bytes().to_vec()));
                    }
                    if s.len() < 2 {
                        continue; // a single site is an ordinary one-field deviation
                    }
                    let (pos, b) = s.remove(0);
                    out.push(Patch { pos, bytes: b, more: s });
                }
            }
            walk(&nd.kids, path, out, n);
            path.pop();
        }
    }
    let mut out = vec![];
    if let Ok(t) = crate::refmp4::parse::tree(bytes, 0) {
        walk(&t, &mut vec![], &mut out, bytes.len() as u64);
    }
    out
}

/// Extreme pairs: every 64-bit number the parser reads (not a box header) at the top of its range together with every
/// 32-bit field at the top of its range — the two-field combinations whose sum or product leaves 64 bits.
pub fn extreme_pairs(bytes: &[u8], fields: &[Field]) -> Vec<Patch> {
    let mut out = vec![];
    let is_header = |f: &Field| {
        let c = &bytes[f.pos as usize + 4..f.pos as usize + 8];
        c.iter().all(|b| (0x20..0x7f).contains(b) || *b == 0xa9)
    };
    for a in fields.iter().filter(|f| f.len == 8 && !is_header(f)) {
        for av in [u64::MAX - 0xfff, u64::MAX, 1u64 << 63] {
            for b in fields.iter().filter(|f| f.len == 4 && (f.pos + 4 <= a.pos || f.pos >= a.pos + 8)) {
                for bv in [0x7fff_ffffu32, 0xffff_ffff, 0x8000_0000] {
                    out.push(Patch { pos: a.pos, bytes: av.to_be_bytes().to_vec(), more: vec![(b.pos, bv.to_be_bytes().to_vec())] });
                }
            }
        }
    }
    out
}

/// Four-character codes the library dispatches on, plus one it does not know.
const CODES: [&[u8; 4]; 58] = [
    b"ftyp", b"mvhd", b"mfhd", b"free", b"mdat", b"moov", b"mvex", b"mehd", b"trex", b"emsg", b"moof", b"tkhd", b"tfhd", b"tfdt", b"edts", b"mdia", b"elst", b"mdhd",
    b"hdlr", b"minf", b"vmhd", b"stbl", b"stsd", b"stts", b"ctts", b"stss", b"stsc", b"stsz", b"stco", b"co64", b"trak", b"traf", b"trun", b"udta", b"meta", b"dinf",
    b"dref", b"url ", b"smhd", b"avc1", b"avcC", b"hev1", b"hvcC", b"mp4a", b"esds", b"tx3g", b"vpcC", b"vp09", b"data", b"ilst", b"\xa9nam", b"\xa9day", b"covr", b"desc",
    b"wide", b"wave", b"zzzz", b"mdir",
];

fn menu_u32(b: u32, n: u64, pos: u64) -> Vec<u32> {
    let n32 = n.min(u32::MAX as u64) as u32;
    let rem = n.saturating_sub(pos).min(u32::MAX as u64) as u32;
    vec![
        0, 1, 2, 7, 8, 9, 15, 16, 17,
        b.wrapping_sub(1), b.wrapping_add(1), b.wrapping_mul(2),
        n32, rem, n32.wrapping_add(1),
        0x7fff_ffff, 0x8000_0000, 0xffff_fff0, 0xffff_ffff,
    ]
}

/// Boundary-value menu for a field of `len` bytes whose baseline content is `cur`.
pub fn menu(len: u32, cur: &[u8], n: u64, pos: u64) -> Vec<Vec<u8>> {
    let mut out: Vec<Vec<u8>> = vec![];
    match len {
        1 => {
            let b = cur[0];
            for v in [0u8, 1, 2, 3, 4, 0x0f, 0x10, 0x1f, 0x20, 0x3f, 0x40, 0x7f, 0x80, 0xc0, 0xfe, 0xff, b.wrapping_sub(1), b.wrapping_add(1), b ^ 0x80, b ^ 1] {
                out.push(vec![v]);
            }
        }
        2 => {
            let b = u16::from_be_bytes([cur[0], cur[1]]);
            for v in [0u16, 1, 2, 3, 4, 0xff, 0x100, 0x7fff, 0x8000, 0xfffe, 0xffff, b.wrapping_sub(1), b.wrapping_add(1), b.wrapping_mul(2), n.min(0xffff) as u16] {
                out.push(v.to_be_bytes().to_vec());
            }
        }
        3 => {
            let b = u32::from_be_bytes([0, cur[0], cur[1], cur[2]]);
            for v in [0u32, 1, 2, 3, 7, 8, 0x10, 0x20, 0x100, 0x200, 0x400, 0x800, 0x10000, 0x20000, 0xffffff, 0xb01, 0x301, b ^ 1, b ^ 0x100, b.wrapping_add(1) & 0xffffff] {
                out.push(v.to_be_bytes()[1..].to_vec());
            }
        }
        4 => {
            let b = u32::from_be_bytes([cur[0], cur[1], cur[2], cur[3]]);
            for v in menu_u32(b, n, pos) {
                out.push(v.to_be_bytes().to_vec());
            }
        }
        5..=7 => {
            out.push(vec![0; len as usize]);
            out.push(vec![0xff; len as usize]);
            let mut one = vec![0; len as usize];
            *one.last_mut().unwrap() = 1;
            out.push(one);
        }
        8 => {
            // (a) as a box header: size menu on the first word, code menu on the second
            let b = u32::from_be_bytes([cur[0], cur[1], cur[2], cur[3]]);
            for v in menu_u32(b, n, pos) {
                let mut x = cur.to_vec();
                x[..4].copy_from_slice(&v.to_be_bytes());
                out.push(x);
            }
            for c in CODES.iter() {
                let mut x = cur.to_vec();
                x[4..].copy_from_slice(&c[..]);
                out.push(x);
            }
            // (a') both words at once: a degenerate size together with a type the surrounding reader does not expect
            for sz in [0u32, 1, 7, 8] {
                for c in [b"free", b"zzzz", b"uuid"] {
                    let mut x = cur.to_vec();
                    x[..4].copy_from_slice(&sz.to_be_bytes());
                    x[4..].copy_from_slice(&c[..]);
                    out.push(x);
                }
            }
            // (b) as a 64-bit number (largesize, 64-bit times/offsets)
            let b64 = u64::from_be_bytes([cur[0], cur[1], cur[2], cur[3], cur[4], cur[5], cur[6], cur[7]]);
            for v in [0u64, 1, 7, 8, 15, 16, 17, 24, b64.wrapping_sub(1), b64.wrapping_add(1), n, n.saturating_sub(pos), n + 1, 0xffff_ffff, 0x1_0000_0000, 0x1_0000_0010, i64::MAX as u64, 1u64 << 63, u64::MAX - 7, u64::MAX] {
                out.push(v.to_be_bytes().to_vec());
            }
        }
        _ => {
            let l = len as usize;
            out.push(vec![0; l]);
            out.push(vec![0xff; l]);
            let mut x = cur.to_vec();
            x[0] = 0xc3;
            if l > 1 {
                x[1] = 0x28; // invalid UTF-8 pair
            }
            out.push(x);
            let mut y = cur.to_vec();
            for b in y.iter_mut() {
                if *b == 0 {
                    *b = b'A'; // terminating NULs removed
                }
            }
            out.push(y);
        }
    }
    let mut seen = BTreeSet::new();
    out.retain(|v| v.as_slice() != cur && seen.insert(v.clone()));
    out
}

/// Fields = distinct (pos,len) the parser read during the open phase.  Reads beyond the data are dropped.
pub fn fields_of(log: &[(u64, u32)], n: u64, max_bulk: u32) -> Vec<Field> {
    let mut s = BTreeSet::new();
    for &(pos, len) in log {
        if len == 0 || pos >= n || len > max_bulk {
            continue;
        }
        let len = len.min((n - pos) as u32);
        s.insert(Field { pos, len });
    }
    s.into_iter().collect()
}

#[derive(Default, Debug, Clone)]
pub struct CaseResult {
    pub opened: bool,
    pub open_err: String,
    pub open_panic: Option<String>,
    pub call_panics: Vec<(String, String)>,
    pub open_ops: u64,
    pub open_bytes: u64,
    pub open_budget_hit: bool,
    pub call_max_ops: (u64, String),
    pub call_max_bytes: (u64, String),
    pub call_budget_hit: Option<String>,
    pub cpu_open_s: f64,
    pub cpu_calls_s: f64,
    pub alloc_open: alloc::Usage,
    pub alloc_calls: alloc::Usage,
    pub boxes: BTreeSet<&'static str>,
    pub read_log: Vec<(u64, u32)>,
    pub digest: Vec<(String, String)>,
}

pub fn thread_cpu_s() -> f64 {
    let mut ts = libc::timespec { tv_sec: 0, tv_nsec: 0 };
    unsafe { libc::clock_gettime(libc::CLOCK_THREAD_CPUTIME_ID, &mut ts) };
    ts.tv_sec as f64 + ts.tv_nsec as f64 * 1e-9
}

pub fn ops_bound(n: u64) -> u64 {
    64 * n + 4096
}
pub fn bytes_bound(n: u64) -> u64 {
    64 * n + (1 << 20)
}
pub fn mem_bound(n: u64) -> u64 {
    128 * n + (8 << 20)
}
pub const CPU_BOUND_S: f64 = 0.5;

/// One complete execution: open (plain or as fragment), then the whole call suite.
pub fn run_case(bytes: &[u8], init: Option<&Mp4Reader<std::io::Cursor<&[u8]>>>, log: bool, keep: bool, all_samples: bool) -> CaseResult {
    let n = bytes.len() as u64;
    let mut res = CaseResult::default();
    let ctl = Ctl::new();
    ctl.logging.set(log);
    ctl.budget_ops.set(ops_bound(n));
    let cpu0 = thread_cpu_s();
    let m = alloc::start();
    let opened = guard(|| match init {
        None => Mp4Reader::read_header(SR::new(bytes, &ctl), n),
        Some(i) => i.read_fragment_header(SR::new(bytes, &ctl), n),
    });
    res.alloc_open = alloc::stop(m);
    let cpu1 = thread_cpu_s();
    res.cpu_open_s = cpu1 - cpu0;
    res.open_ops = ctl.ops.get();
    res.open_bytes = ctl.bytes.get();
    res.open_budget_hit = ctl.budget_hit.get();
    ctl.logging.set(false);
    if log {
        res.read_log = std::mem::take(&mut *ctl.read_log.borrow_mut());
    }
    match opened {
        Err(p) => {
            res.open_panic = Some(short_loc(&p));
        }
        Ok(Err(e)) => {
            res.open_err = format!("{:?}", e);
        }
        Ok(Ok(mut r)) => {
            res.opened = true;
            let mut p = Prober::new(Some(&ctl), keep);
            p.budget = Some(ops_bound(n));
            let m = alloc::start();
            p.probe(&mut r, all_samples);
            res.alloc_calls = alloc::stop(m);
            res.cpu_calls_s = thread_cpu_s() - cpu1;
            res.call_panics = std::mem::take(&mut p.obs.panics);
            res.call_max_ops = p.obs.max_ops.clone();
            res.call_max_bytes = p.obs.max_bytes.clone();
            res.call_budget_hit = p.obs.budget_hit.clone();
            res.boxes = std::mem::take(&mut p.obs.boxes);
            res.digest = std::mem::take(&mut p.obs.digest);
        }
    }
    res
}

fn apply(buf: &mut [u8], p: &Patch) -> Vec<u8> {
    let a = p.pos as usize;
    let old = buf[a..a + p.bytes.len()].to_vec();
    buf[a..a + p.bytes.len()].copy_from_slice(&p.bytes);
    for (pos, b) in p.more.iter() {
        buf[*pos as usize..*pos as usize + b.len()].copy_from_slice(b);
    }
    old
}

fn site(p: &str) -> String {
    // "message @ file:line" -> "file:line"
    p.rsplit(" @ ").next().unwrap_or("?").to_string()
}

fn call_class(c: &str) -> String {
    // "read_sample(1,2)" -> "read_sample"; "moov.trak[0].mdia.to_json" -> "to_json"
    let c = c.split('(').next().unwrap_or(c);
    c.rsplit('.').next().unwrap_or(c).to_string()
}

pub struct E3Job {
    pub prop: String,
    pub baselines: Vec<Baseline>,
    /// (baseline index, L1 patch or None for the unpatched baseline)
    pub units: Vec<(usize, Option<Patch>)>,
    pub max_bulk: u32,
    pub tier: Tier,
}

impl E3Job {
    pub fn new(prop: &str, tier: Tier, seed: u64) -> E3Job {
        let mut baselines = baselines(tier, seed);
        let n_field_baselines = baselines.len();
        baselines.extend(crate::shapes::all());
        let dups = crate::shapes::duplicate_shapes(&baselines[..n_field_baselines]);
        baselines.extend(dups);
        let max_bulk = 1 << 16;
        let mut units = vec![];
        for (bi, b) in baselines.iter().enumerate() {
            if bi >= n_field_baselines {
                // shape family member: explored as it is (deviation 0)
                units.push((bi, None));
                continue;
            }
            let init_r = b.init.as_ref().map(|i| open(i).unwrap_or_else(|e| machinery_failure(&format!("init segment of {} does not open: {}", b.name, e))));
            let r = run_case(&b.bytes, init_r.as_ref(), true, false, false);
            units.push((bi, None));
            let n = b.bytes.len() as u64;
            for f in fields_of(&r.read_log, n, max_bulk) {
                let cur = &b.bytes[f.pos as usize..(f.pos + f.len as u64) as usize];
                for m in menu(f.len, cur, n, f.pos) {
                    units.push((bi, Some(Patch::one(f.pos, m))));
                }
            }
            for c in overrun_chains(&b.bytes) {
                units.push((bi, Some(c)));
            }
            if b.bytes.len() <= 8192 {
                for c in extreme_pairs(&b.bytes, &fields_of(&r.read_log, n, 64)) {
                    units.push((bi, Some(c)));
                }
            }
        }
        E3Job { prop: prop.into(), baselines, units, max_bulk, tier }
    }

    fn case_json(&self, b: &Baseline, patches: &[&Patch], bytes: &[u8]) -> Value {
        let mut c = json!({"engine": "e3", "baseline": b.name, "mode": if b.init.is_some() { "fragment" } else { "open" },
            "patches": patches.iter().flat_map(|p| p.sites().into_iter().map(|(pos, b)| json!([pos, hex(b)])).collect::<Vec<_>>()).collect::<Vec<_>>()});
        if bytes.len() <= 8192 {
            c["input_hex"] = json!(hex(bytes));
        }
        c
    }

    /// Apply the three oracles; report only the job's own property.
    pub fn judge(&self, b: &Baseline, patches: &[&Patch], bytes: &[u8], r: &CaseResult, ctx: &mut WorkerCtx) {
        let n = bytes.len() as u64;
        let prop = self.prop.as_str();
        let case = || self.case_json(b, patches, bytes);
        ctx.count("evaluations", 1);
        ctx.count("transitions", r.open_ops + 1);
        if r.opened {
            ctx.count("outcome:opened", 1);
        } else if r.open_panic.is_some() {
            ctx.count("outcome:open_panicked", 1);
        } else {
            let e = r.open_err.split('(').next().unwrap_or("?");
            ctx.count(&format!("outcome:open_err:{}", e), 1);
        }
        match prop {
            "C06" => {
                if let Some(p) = &r.open_panic {
                    ctx.violation(Violation::new(prop, "panic_in_open", case()).tag(&site(p)).obs(json!(p)));
                }
                for (c, p) in r.call_panics.iter() {
                    ctx.violation(Violation::new(prop, "panic_in_call", case()).tag(&call_class(c)).tag(&site(p)).obs(json!({"call": c, "panic": p})));
                }
            }
            "C07" => {
                if r.open_budget_hit || r.open_ops > ops_bound(n) {
                    ctx.violation(Violation::new(prop, "open_stream_ops_exceed_linear_bound", case()).tag(r.open_err.split('(').next().unwrap_or("?")).obs(json!({"ops": r.open_ops, "budget_exhausted": r.open_budget_hit})).exp(json!({"ops_at_most": ops_bound(n)})));
                }
                if r.open_bytes > bytes_bound(n) {
                    ctx.violation(Violation::new(prop, "open_bytes_exceed_linear_bound", case()).obs(json!(r.open_bytes)).exp(json!(bytes_bound(n))));
                }
                if let Some(c) = &r.call_budget_hit {
                    ctx.violation(Violation::new(prop, "call_stream_ops_exceed_linear_bound", case()).tag(&call_class(c)).obs(json!({"call": c})).exp(json!({"ops_at_most": ops_bound(n)})));
                }
                if r.call_max_bytes.0 > bytes_bound(n) {
                    ctx.violation(Violation::new(prop, "call_bytes_exceed_linear_bound", case()).tag(&call_class(&r.call_max_bytes.1)).obs(json!({"call": r.call_max_bytes.1, "bytes_beyond_sample": r.call_max_bytes.0})));
                }
                if r.cpu_open_s > CPU_BOUND_S {
                    ctx.violation(Violation::new(prop, "open_cpu_time", case()).obs(json!(r.cpu_open_s)).exp(json!(CPU_BOUND_S)));
                }
                if r.cpu_calls_s > CPU_BOUND_S {
                    ctx.violation(Violation::new(prop, "calls_cpu_time", case()).obs(json!(r.cpu_calls_s)).exp(json!(CPU_BOUND_S)));
                }
            }
            "C08" => {
                let bound = mem_bound(n);
                for (phase, u) in [("open", &r.alloc_open), ("calls", &r.alloc_calls)] {
                    if u.max_request > bound {
                        ctx.violation(Violation::new(prop, &format!("{}_single_allocation_exceeds_linear_bound", phase), case()).obs(json!({"request": u.max_request})).exp(json!({"at_most": bound})));
                    } else if u.peak > bound {
                        ctx.violation(Violation::new(prop, &format!("{}_live_memory_exceeds_linear_bound", phase), case()).obs(json!({"peak": u.peak})).exp(json!({"at_most": bound})));
                    }
                }
            }
            _ => {}
        }
    }
}

impl Job for E3Job {
    fn units(&self) -> u64 {
        self.units.len() as u64
    }

    fn run_unit(&self, unit: u64, start_sub: u64, ctx: &mut WorkerCtx) {
        let (bi, p1) = &self.units[unit as usize];
        let b = &self.baselines[*bi];
        if start_sub == 1 {
            // the single-deviation case itself killed the worker: its second-level neighbourhood is skipped
            ctx.count("units_skipped_after_death", 1);
            return;
        }
        let init_r = b.init.as_ref().map(|i| open(i).unwrap());
        let mut buf = b.bytes.clone();
        let n = buf.len() as u64;
        let single = p1.as_ref().map(|p| p.more.is_empty()).unwrap_or(false);
        // second level: full menus on the baselines marked for it; otherwise reduced x reduced
        let reduced_first = single && b.rpairs(self.tier) && {
            let p = p1.as_ref().unwrap();
            let cur = &b.bytes[p.pos as usize..p.pos as usize + p.bytes.len()];
            p.bytes.len() <= 8 && reduced_menu(p.bytes.len() as u32, cur).contains(&p.bytes)
        };
        let full_pairs = b.pairs && single;
        let pairs = full_pairs || reduced_first;
        let mut plist: Vec<&Patch> = vec![];
        if let Some(p) = p1 {
            apply(&mut buf, p);
            plist.push(p);
        }
        // sub 0: the case itself (re-run for its log when resuming into the second level)
        if start_sub == 0 {
            ctx.begin_case(unit, 0);
        }
        let r = run_case(&buf, init_r.as_ref(), pairs, false, false);
        if start_sub == 0 {
            ctx.end_case();
            self.judge(b, &plist, &buf, &r, ctx);
            if p1.is_none() {
                ctx.count("baseline_runs", 1);
                for bx in r.boxes.iter() {
                    ctx.count(&format!("box:{}", bx), 1);
                }
                if !r.opened && !b.name.starts_with("shape:") {
                    ctx.count("baseline_failed_to_open", 1);
                }
                if b.name.starts_with("shape:") {
                    ctx.count("shape_cases", 1);
                    if r.opened {
                        ctx.count("nontrivial:shape_opens", 1);
                    }
                }
            } else if p1.as_ref().map(|p| !p.more.is_empty()).unwrap_or(false) {
                ctx.count(if r.opened { "structured_deviation_still_opens" } else { "structured_deviation_rejected" }, 1);
            } else if r.opened {
                ctx.count("nontrivial:single_deviation_still_opens", 1);
            } else {
                ctx.count("nontrivial:single_deviation_rejected", 1);
            }
            if unit % 997 == 3 {
                ctx.sample(self.case_json(b, &plist, &[]));
            }
        }
        if !pairs {
            return;
        }
        let p1 = p1.as_ref().unwrap();
        let p1_end = p1.pos + p1.bytes.len() as u64;
        let mut sub = 1u64;
        for f in fields_of(&r.read_log, n, 64) {
            if f.pos < p1_end {
                continue; // unordered pair: the lower field is always the first deviation
            }
            let cur = buf[f.pos as usize..(f.pos + f.len as u64) as usize].to_vec();
            if !full_pairs && f.len > 8 {
                continue;
            }
            for m in if full_pairs { menu(f.len, &cur, n, f.pos) } else { reduced_menu(f.len, &cur) } {
                if sub >= start_sub {
                    let p2 = Patch::one(f.pos, m);
                    let old = apply(&mut buf, &p2);
                    ctx.begin_case(unit, sub);
                    let r2 = run_case(&buf, init_r.as_ref(), false, false, false);
                    ctx.end_case();
                    self.judge(b, &[p1, &p2], &buf, &r2, ctx);
                    ctx.count(if full_pairs { "pair_cases" } else { "reduced_pair_cases" }, 1);
                    buf[f.pos as usize..f.pos as usize + old.len()].copy_from_slice(&old);
                }
                sub += 1;
            }
        }
    }
}

/// Parent side: run the job of `prop` in worker subprocesses and write evidence.
pub fn run_check(prop: &str, tier: Tier, seed: u64, profiles: &[&str]) -> i32 {
    let mut ev = Evidence::new(prop, tier, seed, "model_checking");
    let rep = Reporter::new(prop);
    let job = E3Job::new(prop, tier, seed);
    let nunits = job.units.len();
    let mut counters_all = serde_json::Map::new();
    let mut caps = vec![];
    let mut evaluations = 0u64;
    let mut transitions = 0u64;
    let mut nontrivial = 0u64;
    let mut samples = vec![];
    let mut deaths_total = 0usize;
    let cap = std::time::Duration::from_secs(if tier == Tier::Quick { 45 } else { 1500 });
    for profile in profiles {
        let exe = self_exe(profile);
        if !std::path::Path::new(&exe).exists() {
            machinery_failure(&format!("worker binary {} missing (run setup_cmd / bin/check builds it)", exe));
        }
        let args: Vec<String> = vec!["e3".into(), prop.into(), "--tier".into(), tier.name().into(), "--seed".into(), seed.to_string()];
        let res = run_sharded(&exe, &args, 16, cap, &format!("{}-{}", prop, profile));
        for (_, (n, vs)) in res.classes {
            let k = vs.len() as u64;
            for (i, mut v) in vs.into_iter().enumerate() {
                v.case["profile"] = json!(profile);
                if i == 0 {
                    rep.report_n(v, n.saturating_sub(k - 1).max(1));
                } else {
                    rep.report(v);
                }
            }
        }
        for (di, (kind, unit, sub)) in res.deaths.iter().enumerate() {
            deaths_total += 1;
            let (bi, p1) = &job.units[*unit as usize];
            let b = &job.baselines[*bi];
            let max_request = res.death_max_request.get(di).copied().unwrap_or(0);
            let over_bound = max_request > mem_bound(b.bytes.len() as u64);
            let case = json!({"engine": "e3", "baseline": b.name, "unit": unit, "sub": sub, "profile": profile,
                "first_patch": p1.as_ref().map(|p| p.sites().into_iter().map(|(pos, b)| json!([pos, hex(b)])).collect::<Vec<_>>()), "note": "worker process died on this case; replay with `mp4mc e3case`"});
            // timeout -> C07; refused allocation (process aborts) -> C08 and C06; any other death (abort, stack overflow) -> C06
            let is_timeout = kind == "timeout";
            let is_alloc = kind.starts_with("allocation_refused");
            // a request beyond the linear bound made before the worker died (however it died) is C08's
            let mine = match prop {
                "C07" => is_timeout,
                "C08" => is_alloc || over_bound,
                _ => !is_timeout,
            };
            if mine {
                let clause = if prop == "C08" && over_bound && !is_alloc {
                    "allocation_request_exceeds_linear_bound_before_worker_died"
                } else if is_timeout {
                    "case_exceeded_wall_clock_watchdog"
                } else if is_alloc {
                    "allocation_request_refused_process_aborted"
                } else {
                    "worker_process_died"
                };
                rep.report(Violation::new(prop, clause, case).tag(kind.split(':').next().unwrap_or(kind)).obs(json!({"death": kind, "largest_request_of_the_case": max_request})).exp(json!({"at_most": mem_bound(b.bytes.len() as u64)})));
            }
        }
        if res.capped {
            caps.push(format!("profile {}: wall-time cap of {:?} hit; remaining units not explored", profile, cap));
        }
        evaluations += res.counters.get("evaluations").copied().unwrap_or(0);
        transitions += res.counters.get("transitions").copied().unwrap_or(0);
        nontrivial += res.counters.get("nontrivial:single_deviation_still_opens").copied().unwrap_or(0) + res.counters.get("pair_cases").copied().unwrap_or(0) + res.counters.get("reduced_pair_cases").copied().unwrap_or(0) + res.counters.get("nontrivial:shape_opens").copied().unwrap_or(0);
        // vacuity guard: together the baselines must make the parser produce every box kind the library can render
        const KINDS: [&str; 47] = ["ftyp", "moov", "mvhd", "meta", "ilst", "data", "mvex", "mehd", "trex", "udta", "trak", "tkhd", "edts", "elst", "mdia", "mdhd", "hdlr", "minf", "vmhd", "smhd", "dinf", "stbl", "stsd", "avc1", "avcC", "hev1", "hvcC", "vp09", "vpcC", "mp4a", "esds", "tx3g", "stts", "ctts", "stss", "stsc", "stsz", "stco", "co64", "moof", "mfhd", "traf", "tfhd", "tfdt", "trun", "emsg", "data"];
        if !res.capped {
            let missing: Vec<&str> = KINDS.iter().filter(|k| res.counters.get(&format!("box:{}", k)).copied().unwrap_or(0) == 0).cloned().collect();
            if !missing.is_empty() {
                machinery_failure(&format!("baselines never produce box kinds {:?}: the exploration would be vacuous for them", missing));
            }
        }
        if res.counters.get("baseline_failed_to_open").copied().unwrap_or(0) > 0 {
            machinery_failure("a baseline does not open on this tree: E3 would be vacuous (triage the baseline)");
        }
        samples.extend(res.samples);
        counters_all.insert(profile.to_string(), Value::Object(res.counters.into_iter().map(|(k, v)| (k, json!(v))).collect()));
    }
    ev.set("evaluations", json!(evaluations));
    ev.set("states", json!(evaluations));
    ev.set("transitions", json!(transitions));
    ev.set("traces_validated_against_impl", json!(evaluations));
    ev.set("distinct_nontrivial", json!(nontrivial));
    ev.set("rule", json!("one case = one concrete input file (baseline with <= 2 field substitutions) opened and fully probed by the real reader; inputs are distinct by construction (distinct patch sets, identical-to-baseline values removed from the menus); non-trivial = single-deviation inputs the reader still opens (the deviation reached the accessors) plus all two-deviation inputs"));
    ev.set("units", json!(nunits));
    ev.set("shape_family_members", json!(job.baselines.iter().filter(|b| b.name.starts_with("shape:")).count()));
    ev.set("baselines", json!(job.baselines.iter().filter(|b| !b.name.starts_with("shape:")).map(|b| json!({"name": b.name, "len": b.bytes.len(), "pairs": b.pairs, "reduced_pairs": b.rpairs(tier), "fragment_mode": b.init.is_some()})).collect::<Vec<_>>()));
    ev.set("profiles", json!(profiles));
    ev.set("counters", Value::Object(counters_all));
    ev.set("worker_deaths", json!(deaths_total));
    ev.set("caps_hit", json!(caps));
    ev.set("exhaustive", json!(caps.is_empty()));
    ev.set("bound", json!("deviations 0 and 1 on every baseline (every field the parser reads during open x its boundary-value menu); deviations = 2 on the baselines marked pairs=true; deviations = 2 with both fields over their reduced menu (zero, all ones, neighbour of the current value) on the baselines marked reduced_pairs=true (quick: baselines <= 1500 bytes; thorough: all others); structured multi-field deviations on every baseline: overrun chains (sizes of all boxes on every suffix of every ancestor path raised together, with and without a huge entry count) and extreme pairs (every 64-bit number x every 32-bit field, both at the top of their range); deviation 0 on every member of the input-shape families (metadata item x data type x payload length x meta form; fragment option tuples x run-length vectors (0..2)^3 in both delivery modes; chunk compositions x size/offset/sync shapes); bounds checked: ops <= 64n+4096 and bytes <= 64n+2^20 (+sample) per call, thread CPU <= 0.5 s per phase, allocation <= 128n+8MiB"));
    if samples.is_empty() {
        samples.push(json!("(none)"));
    }
    ev.set("samples", Value::Array(samples));
    ev.assume("fields are discovered from the reads the parser performs on the (patched) input, so a field the parser never reads is never substituted");
    ev.assume("byte strings further than two substitutions from every baseline are not explored (no byte-level havoc: that would be sampling)");
    conclude(&ev, &rep)
}
