//! Subprocess isolation for explorations that may crash, hang or exhaust memory.
//!
//! parent: `run_sharded` spawns N copies of this binary (`mp4mc worker …`), each working through the
//! units `shard, shard+N, …` of a deterministic unit list.  A worker writes (unit, sub-case) into a
//! shared marker file *before* each case; when a worker dies (abort, signal, watchdog), the parent
//! attributes the death to that case, records it, and respawns the worker just after it.

use crate::common::*;
use serde_json::{json, Value};
use std::collections::BTreeMap;
use std::io::{BufRead, BufReader, Write};
use std::process::{Command, Stdio};
use std::sync::atomic::{AtomicU64, Ordering};
use std::sync::mpsc;
use std::time::{Duration, Instant};

// ------------------------------------------------------------------------------------------------
// worker side

pub struct Marker {
    ptr: *mut u64,
}

unsafe impl Send for Marker {}

impl Marker {
    pub fn open(path: &str) -> Marker {
        use std::os::unix::io::AsRawFd;
        let f = std::fs::OpenOptions::new().read(true).write(true).create(true).open(path).expect("marker file");
        f.set_len(64).unwrap();
        let p = unsafe { libc::mmap(std::ptr::null_mut(), 64, libc::PROT_READ | libc::PROT_WRITE, libc::MAP_SHARED, f.as_raw_fd(), 0) };
        if p == libc::MAP_FAILED {
            machinery_failure("mmap of marker failed");
        }
        Marker { ptr: p as *mut u64 }
    }
    pub fn refuse_slot(&self) -> *mut u64 {
        unsafe { self.ptr.add(3) }
    }
    pub fn bigreq_slot(&self) -> *mut u64 {
        unsafe { self.ptr.add(4) }
    }
    /// largest allocation request (>= 1 MiB) made during the case in progress
    pub fn bigreq(&self) -> u64 {
        unsafe { std::ptr::read_volatile(self.ptr.add(4)) }
    }
    pub fn refused(&self) -> u64 {
        unsafe { std::ptr::read_volatile(self.ptr.add(3)) }
    }
    #[inline]
    pub fn set(&self, unit: u64, sub: u64) {
        unsafe {
            std::ptr::write_volatile(self.ptr, unit);
            std::ptr::write_volatile(self.ptr.add(1), sub);
            std::ptr::write_volatile(self.ptr.add(2), 1);
            std::ptr::write_volatile(self.ptr.add(3), 0);
            std::ptr::write_volatile(self.ptr.add(4), 0);
        }
    }
    pub fn idle(&self) {
        unsafe { std::ptr::write_volatile(self.ptr.add(2), 0) }
    }
    pub fn get(&self) -> (u64, u64, u64) {
        unsafe { (std::ptr::read_volatile(self.ptr), std::ptr::read_volatile(self.ptr.add(1)), std::ptr::read_volatile(self.ptr.add(2))) }
    }
}

static CASE_START_US: AtomicU64 = AtomicU64::new(0);

pub struct WorkerCtx {
    pub marker: Marker,
    pub bag: VioBag,
    pub seen_classes: std::collections::BTreeSet<String>,
    pub counters: BTreeMap<String, u64>,
    pub samples_emitted: u32,
    t0: Instant,
    units_since_flush: u32,
}

impl WorkerCtx {
    /// Must be called before every case.
    pub fn begin_case(&mut self, unit: u64, sub: u64) {
        self.marker.set(unit, sub);
        CASE_START_US.store(self.t0.elapsed().as_micros() as u64 + 1, Ordering::Relaxed);
    }
    pub fn end_case(&mut self) {
        CASE_START_US.store(0, Ordering::Relaxed);
        self.marker.idle();
    }
    pub fn count(&mut self, k: &str, n: u64) {
        *self.counters.entry(k.to_string()).or_insert(0) += n;
    }
    pub fn violation(&mut self, v: Violation) {
        let key = format!("{}|{}", v.clause, v.tags.join(","));
        if self.seen_classes.insert(key) {
            emit(&json!({"t": "v", "v": v.to_json()}));
        } else {
            self.bag.push(v);
        }
    }
    pub fn sample(&mut self, v: Value) {
        if self.samples_emitted < 2 {
            self.samples_emitted += 1;
            emit(&json!({"t": "sample", "v": v}));
        }
    }
    pub fn flush(&mut self) {
        let bag = std::mem::take(&mut self.bag);
        let classes: Vec<Value> = bag
            .0
            .into_iter()
            .map(|(k, (n, vs))| json!({"class": k, "n": n, "first": vs.into_iter().map(|v| v.to_json()).collect::<Vec<_>>()}))
            .collect();
        let counters = std::mem::take(&mut self.counters);
        emit(&json!({"t": "delta", "classes": classes, "counters": counters}));
        self.units_since_flush = 0;
    }
}

fn emit(v: &Value) {
    let so = std::io::stdout();
    let mut l = so.lock();
    let _ = writeln!(l, "{}", v);
    let _ = l.flush();
}

pub trait Job {
    fn units(&self) -> u64;
    /// Run every sub-case `>= start_sub` of `unit`.  Call `ctx.begin_case(unit, sub)` before and
    /// `ctx.end_case()` after each one.
    fn run_unit(&self, unit: u64, start_sub: u64, ctx: &mut WorkerCtx);
}

pub struct WorkerArgs {
    pub shard: u64,
    pub of: u64,
    pub resume_unit: u64,
    pub resume_sub: u64,
    pub marker: String,
    pub case_wall_limit_ms: u64,
    pub rlimit_as_gib: u64,
}

pub fn parse_worker_args(args: &[String]) -> WorkerArgs {
    let mut w = WorkerArgs { shard: 0, of: 1, resume_unit: 0, resume_sub: 0, marker: String::new(), case_wall_limit_ms: 10_000, rlimit_as_gib: 48 };
    let mut i = 0;
    while i + 1 < args.len() {
        let v = &args[i + 1];
        match args[i].as_str() {
            "--shard" => w.shard = v.parse().unwrap(),
            "--of" => w.of = v.parse().unwrap(),
            "--resume-unit" => w.resume_unit = v.parse().unwrap(),
            "--resume-sub" => w.resume_sub = v.parse().unwrap(),
            "--marker" => w.marker = v.clone(),
            "--case-limit-ms" => w.case_wall_limit_ms = v.parse().unwrap(),
            "--rlimit-as-gib" => w.rlimit_as_gib = v.parse().unwrap(),
            _ => {
                i += 1;
                continue;
            }
        }
        i += 2;
    }
    w
}

pub fn worker_main(job: &dyn Job, a: &WorkerArgs) -> i32 {
    unsafe {
        let lim = libc::rlimit { rlim_cur: a.rlimit_as_gib << 30, rlim_max: a.rlimit_as_gib << 30 };
        libc::setrlimit(libc::RLIMIT_AS, &lim);
        let core = libc::rlimit { rlim_cur: 0, rlim_max: 0 };
        libc::setrlimit(libc::RLIMIT_CORE, &core);
    }
    let t0 = Instant::now();
    let marker0 = Marker::open(&a.marker);
    crate::env::alloc::REFUSE_SLOT.store(marker0.refuse_slot(), Ordering::Relaxed);
    crate::env::alloc::BIGREQ_SLOT.store(marker0.bigreq_slot(), Ordering::Relaxed);
    let mut ctx = WorkerCtx {
        marker: Marker::open(&a.marker),
        bag: VioBag::default(),
        seen_classes: Default::default(),
        counters: BTreeMap::new(),
        samples_emitted: 0,
        t0,
        units_since_flush: 0,
    };
    // watchdog: a case that runs longer than the wall limit is reported and the process exits
    let limit_us = a.case_wall_limit_ms * 1000;
    std::thread::spawn(move || loop {
        std::thread::sleep(Duration::from_millis(50));
        let s = CASE_START_US.load(Ordering::Relaxed);
        if s != 0 {
            let now = t0.elapsed().as_micros() as u64 + 1;
            if now > s && now - s > limit_us {
                emit(&json!({"t": "timeout", "after_ms": (now - s) / 1000}));
                unsafe { libc::_exit(3) };
            }
        }
    });
    let n = job.units();
    let mut unit = a.shard;
    while unit < n {
        if unit >= a.resume_unit {
            let start_sub = if unit == a.resume_unit { a.resume_sub } else { 0 };
            job.run_unit(unit, start_sub, &mut ctx);
            ctx.units_since_flush += 1;
            if ctx.units_since_flush >= 64 {
                ctx.flush();
            }
        }
        unit += a.of;
    }
    ctx.flush();
    emit(&json!({"t": "done"}));
    0
}

// ------------------------------------------------------------------------------------------------
// parent side

#[derive(Default)]
pub struct ShardedResult {
    pub classes: BTreeMap<String, (u64, Vec<Violation>)>,
    pub counters: BTreeMap<String, u64>,
    pub samples: Vec<Value>,
    /// worker deaths: (kind, unit, sub)
    pub deaths: Vec<(String, u64, u64)>,
    /// per death (same order): the largest allocation request (>= 1 MiB) the dying case had made
    pub death_max_request: Vec<u64>,
    pub respawns: u64,
    pub capped: bool,
}

enum Msg {
    Line(usize, Value),
    Eof(usize),
}

/// `base_args`: everything after `mp4mc worker`, without shard/resume/marker arguments.
pub fn run_sharded(exe: &str, base_args: &[String], nshards: usize, wall_cap: Duration, tag: &str) -> ShardedResult {
    let start = Instant::now();
    let _ = std::fs::create_dir_all("target/markers");
    let mut res = ShardedResult::default();
    let (tx, rx) = mpsc::channel::<Msg>();
    let mut children: Vec<Option<std::process::Child>> = (0..nshards).map(|_| None).collect();
    let mut done = vec![false; nshards];
    let mut saw_timeout = vec![false; nshards];
    let marker_path = |s: usize| format!("target/markers/{}-{}-{}.mark", tag, std::process::id(), s);
    let spawn = |s: usize, ru: u64, rs: u64, tx: &mpsc::Sender<Msg>| -> std::process::Child {
        let mut c = Command::new(exe);
        c.arg("worker").args(base_args);
        c.args(["--shard", &s.to_string(), "--of", &nshards.to_string(), "--resume-unit", &ru.to_string(), "--resume-sub", &rs.to_string(), "--marker", &marker_path(s)]);
        c.stdout(Stdio::piped()).stderr(Stdio::null()).stdin(Stdio::null());
        let mut ch = c.spawn().unwrap_or_else(|e| machinery_failure(&format!("cannot spawn worker: {}", e)));
        let out = ch.stdout.take().unwrap();
        let tx = tx.clone();
        std::thread::spawn(move || {
            let rd = BufReader::with_capacity(1 << 16, out);
            for line in rd.lines() {
                match line {
                    Ok(l) => {
                        if let Ok(v) = serde_json::from_str::<Value>(&l) {
                            let _ = tx.send(Msg::Line(s, v));
                        }
                    }
                    Err(_) => break,
                }
            }
            let _ = tx.send(Msg::Eof(s));
        });
        ch
    };
    for s in 0..nshards {
        // fresh marker
        let _ = std::fs::remove_file(marker_path(s));
        children[s] = Some(spawn(s, 0, 0, &tx));
    }
    let mut live = nshards;
    while live > 0 {
        let msg = match rx.recv_timeout(Duration::from_millis(500)) {
            Ok(m) => m,
            Err(mpsc::RecvTimeoutError::Timeout) => {
                if start.elapsed() > wall_cap {
                    res.capped = true;
                    for c in children.iter_mut().flatten() {
                        let _ = c.kill();
                    }
                }
                continue;
            }
            Err(_) => break,
        };
        match msg {
            Msg::Line(s, v) => match v["t"].as_str() {
                Some("v") => {
                    if let Some(vi) = Violation::from_json(&v["v"]) {
                        let key = format!("{}|{}", vi.clause, vi.tags.join(","));
                        let e = res.classes.entry(key).or_insert((0, vec![]));
                        e.0 += 1;
                        if e.1.len() < 3 {
                            e.1.push(vi);
                        }
                    }
                }
                Some("delta") => {
                    for c in v["classes"].as_array().cloned().unwrap_or_default() {
                        let key = c["class"].as_str().unwrap_or("?").to_string();
                        let e = res.classes.entry(key).or_insert((0, vec![]));
                        e.0 += c["n"].as_u64().unwrap_or(0);
                        for f in c["first"].as_array().cloned().unwrap_or_default() {
                            if e.1.len() < 3 {
                                if let Some(vi) = Violation::from_json(&f) {
                                    e.1.push(vi);
                                }
                            }
                        }
                    }
                    if let Some(m) = v["counters"].as_object() {
                        for (k, n) in m {
                            *res.counters.entry(k.clone()).or_insert(0) += n.as_u64().unwrap_or(0);
                        }
                    }
                }
                Some("sample") => {
                    if res.samples.len() < 6 {
                        res.samples.push(v["v"].clone());
                    }
                }
                Some("timeout") => saw_timeout[s] = true,
                Some("done") => done[s] = true,
                _ => {}
            },
            Msg::Eof(s) => {
                let status = children[s].as_mut().map(|c| c.wait());
                children[s] = None;
                if done[s] || res.capped {
                    live -= 1;
                    continue;
                }
                // died: attribute to the marked case
                let m = Marker::open(&marker_path(s));
                let (unit, sub, running) = m.get();
                let kind = if saw_timeout[s] {
                    "timeout".to_string()
                } else if m.refused() != 0 {
                    format!("allocation_refused:{}", m.refused())
                } else {
                    match status {
                        Some(Ok(st)) => {
                            use std::os::unix::process::ExitStatusExt;
                            if let Some(sig) = st.signal() {
                                format!("signal {}", sig)
                            } else {
                                format!("exit {}", st.code().unwrap_or(-1))
                            }
                        }
                        _ => "unknown".into(),
                    }
                };
                if running == 0 {
                    // died outside a case: machinery problem, never a verdict
                    machinery_failure(&format!("worker {} died outside a case ({}), marker unit={} sub={}", s, kind, unit, sub));
                }
                res.death_max_request.push(m.bigreq());
                res.deaths.push((kind, unit, sub));
                res.respawns += 1;
                if res.respawns > 20_000 {
                    machinery_failure("more than 20000 worker deaths; giving up");
                }
                saw_timeout[s] = false;
                children[s] = Some(spawn(s, unit, sub + 1, &tx));
            }
        }
    }
    for s in 0..nshards {
        let _ = std::fs::remove_file(marker_path(s));
    }
    res
}

pub fn self_exe(profile: &str) -> String {
    // binaries of both profiles live side by side: target/release/mp4mc, target/wrapping/mp4mc
    let me = std::env::current_exe().unwrap();
    let dir = me.parent().unwrap().parent().unwrap();
    dir.join(profile).join("mp4mc").to_string_lossy().into_owned()
}
