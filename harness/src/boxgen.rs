//! Shape x value enumeration of every box type: each case pairs a library value with the reference
//! encoding (refmp4) of the same abstract value.  Used by C04 (inverse / size-exact) and C05 (wire format).

use crate::common::*;
use crate::refmp4::build as rb;
use crate::refmp4::tree::{serialize, Node, W};
use mp4::verif_hooks::*;
use mp4::*;
use serde_json::{json, Value};
use std::result::Result;
use std::collections::HashMap;
use std::io::Cursor;

// ---------------------------------------------------------------------------------------------
// value source: all-zero, all-ones, fingerprint, one-hot

pub struct V {
    pub mode: usize,
    pub n: usize,
}

/// modes >= TWO_HOT encode "fields a and b at their maximum, all others zero" as TWO_HOT + a * 1000 + b
pub const TWO_HOT: usize = 1_000_000;

impl V {
    pub fn new(mode: usize) -> V {
        V { mode, n: 0 }
    }
    /// A value of `bits` bits.
    pub fn bits(&mut self, bits: u32) -> u64 {
        let i = self.n;
        self.n += 1;
        let max = if bits >= 64 { u64::MAX } else { (1u64 << bits) - 1 };
        match self.mode {
            0 => 0,
            1 => max,
            2 => {
                // distinct, non-palindromic bytes; different for every field index
                let mut x = 0u64;
                for j in 0..8u64 {
                    x = (x << 8) | ((i as u64 * 17 + j * 29 + 3) & 0xff);
                }
                let r = x & max;
                if bits <= 8 {
                    ((i as u64 * 37 + 11) & max).max(if max > 1 { 1 } else { 0 })
                } else {
                    r
                }
            }
            m if m >= TWO_HOT => {
                let (a, b) = ((m - TWO_HOT) / 1000, (m - TWO_HOT) % 1000);
                if i == a || i == b {
                    max
                } else {
                    0
                }
            }
            m => {
                if m - 3 == i {
                    max
                } else {
                    0
                }
            }
        }
    }
    pub fn u8(&mut self) -> u8 {
        self.bits(8) as u8
    }
    pub fn u16(&mut self) -> u16 {
        self.bits(16) as u16
    }
    pub fn u24(&mut self) -> u32 {
        self.bits(24) as u32
    }
    pub fn u32(&mut self) -> u32 {
        self.bits(32) as u32
    }
    pub fn i32(&mut self) -> i32 {
        self.bits(32) as u32 as i32
    }
    pub fn u64(&mut self) -> u64 {
        self.bits(64)
    }
    pub fn flag(&mut self) -> bool {
        self.bits(1) == 1
    }
    /// `len` payload bytes
    pub fn bytes(&mut self, len: usize) -> Vec<u8> {
        let i = self.n;
        self.n += 1;
        match self.mode {
            0 => vec![0; len],
            1 => vec![0xff; len],
            2 => (0..len).map(|j| (i * 41 + j * 7 + 1) as u8).collect(),
            m if m >= TWO_HOT => vec![if i == (m - TWO_HOT) / 1000 || i == (m - TWO_HOT) % 1000 { 0xff } else { 0 }; len],
            m => vec![if m - 3 == i { 0xff } else { 0 }; len],
        }
    }
    /// valid UTF-8 without NUL
    pub fn string(&mut self) -> String {
        let i = self.n;
        self.n += 1;
        match self.mode {
            0 => String::new(),
            // all-ones flavour: three DEL characters; on odd field indices a string whose first byte equals its own
            // byte length (what a length-prefixed "Pascal" reading of a C string would key on)
            1 => {
                if i % 2 == 1 {
                    "\u{4}abc".into()
                } else {
                    "\u{7f}\u{7f}\u{7f}".into()
                }
            }
            2 => format!("s{}\u{e9}\u{65e5}", i),
            m if m >= TWO_HOT => {
                if i == (m - TWO_HOT) / 1000 || i == (m - TWO_HOT) % 1000 {
                    "y".repeat(121) // 'y' = 121: first byte = length
                } else {
                    String::new()
                }
            }
            m => {
                if m - 3 == i {
                    "x".repeat(120) // 'x' = 120: first byte = length
                } else {
                    String::new()
                }
            }
        }
    }
    pub fn fourcc(&mut self) -> [u8; 4] {
        (self.bits(32) as u32).to_be_bytes()
    }
    pub fn lang(&mut self) -> [u8; 3] {
        let x = self.bits(15) as u16;
        [((x >> 10) & 31) as u8 + 0x60, ((x >> 5) & 31) as u8 + 0x60, (x & 31) as u8 + 0x60]
    }
}

// ---------------------------------------------------------------------------------------------
// the case abstraction

/// A stream that legally transfers at most `k` bytes per read call.
pub struct Trickle {
    pub cur: Cursor<Vec<u8>>,
    pub k: usize,
}

impl std::io::Read for Trickle {
    fn read(&mut self, buf: &mut [u8]) -> std::io::Result<usize> {
        let n = buf.len().min(self.k);
        self.cur.read(&mut buf[..n])
    }
}

impl std::io::Seek for Trickle {
    fn seek(&mut self, pos: std::io::SeekFrom) -> std::io::Result<u64> {
        self.cur.seek(pos)
    }
}

pub trait BoxCase {
    /// as `lib_decode_eq`, through a stream that transfers at most `k` bytes per read call
    fn lib_decode_eq_trickle(&self, bytes: &[u8], k: usize) -> Result<(bool, u64, String), String>;
    fn type_name(&self) -> &'static str;
    fn shape(&self) -> String;
    fn describe(&self) -> Value;
    fn cc(&self) -> [u8; 4];
    /// (returned count, bytes written)
    fn lib_encode(&self) -> Result<(u64, Vec<u8>), String>;
    fn lib_box_size(&self) -> u64;
    fn lib_box_type(&self) -> u32;
    /// decode `bytes` (a box followed by anything); Ok((equals self, stream position after decode, rendering))
    fn lib_decode_eq(&self, bytes: &[u8]) -> Result<(bool, u64, String), String>;
    /// decode two byte strings: Ok(Some((values equal, bytes left after a, bytes left after b))) when both decode,
    /// Ok(None) when both are refused, Err(description) when exactly one is refused or a decode panics
    fn lib_decode_both(&self, a: &[u8], b: &[u8]) -> Result<Option<(bool, u64, u64)>, String>;
    /// as `lib_decode_eq`, with the box located behind `lead` bytes of the stream (position returned relative to the box)
    fn lib_decode_eq_at(&self, lead: &[u8], bytes: &[u8]) -> Result<(bool, u64, String), String>;
    /// decode, re-encode, decode again: Ok(Some(true)) fixpoint, Ok(None) if the first decode or the re-encode fails
    fn lib_fixpoint(&self, bytes: &[u8]) -> Result<Option<bool>, String>;
    fn ref_bytes(&self, large: bool) -> Vec<u8>;
    /// the reference bytes with each descendant box in turn written with the 64-bit size header: (path, bytes)
    fn ref_bytes_descendant_large(&self) -> Vec<(String, Vec<u8>)>;
    /// for every container inside the box (itself included) and every child index: the reference bytes with an
    /// uninterpreted child inserted there, once with the compact and once with the 64-bit size header: (where, compact, 64-bit)
    fn ref_bytes_inserted_child(&self) -> Vec<(String, Vec<u8>, Vec<u8>)>;
    /// mask over the whole box (header included): 0xff = compare, bits cleared = reserved positions
    fn mask(&self) -> Option<Vec<u8>>;
    /// the library cannot represent an encode-side value of this shape (decode-only comparison)
    fn decode_only(&self) -> bool;
}

pub struct Case<B> {
    pub tname: &'static str,
    pub shape: String,
    pub lib: B,
    pub node: Node,
    pub payload_mask: Option<Vec<u8>>,
    pub decode_only: bool,
}

impl<B> BoxCase for Case<B>
where
    B: Mp4Box + PartialEq + std::fmt::Debug + for<'w> WriteBox<&'w mut Vec<u8>> + for<'r> ReadBox<&'r mut Cursor<Vec<u8>>> + for<'r> ReadBox<&'r mut Trickle>,
{
    fn type_name(&self) -> &'static str {
        self.tname
    }
    fn shape(&self) -> String {
        self.shape.clone()
    }
    fn describe(&self) -> Value {
        let s = format!("{:?}", self.lib);
        json!({"type": self.tname, "shape": self.shape, "value": if s.len() > 1500 { format!("{}…", &s[..1500]) } else { s }})
    }
    fn cc(&self) -> [u8; 4] {
        self.node.cc
    }
    fn lib_encode(&self) -> Result<(u64, Vec<u8>), String> {
        let mut out = vec![];
        match guard(|| self.lib.write_box(&mut out)) {
            Ok(Ok(n)) => Ok((n, out)),
            Ok(Err(e)) => Err(format!("Err({})", e)),
            Err(p) => Err(format!("PANIC {}", short_loc(&p))),
        }
    }
    fn lib_box_size(&self) -> u64 {
        self.lib.box_size()
    }
    fn lib_box_type(&self) -> u32 {
        self.lib.box_type().into()
    }
    fn lib_decode_eq(&self, bytes: &[u8]) -> Result<(bool, u64, String), String> {
        self.lib_decode_eq_at(&[], bytes)
    }
    fn lib_decode_eq_trickle(&self, bytes: &[u8], k: usize) -> Result<(bool, u64, String), String> {
        let mut t = Trickle { cur: Cursor::new(bytes.to_vec()), k };
        let r = guard(|| {
            let h = BoxHeader::read(&mut t)?;
            B::read_box(&mut t, h.size)
        });
        match r {
            Ok(Ok(v)) => Ok((v == self.lib, t.cur.position(), format!("{:?}", v))),
            Ok(Err(e)) => Err(format!("Err({})", e)),
            Err(p) => Err(format!("PANIC {}", short_loc(&p))),
        }
    }
    fn lib_decode_both(&self, a: &[u8], b: &[u8]) -> Result<Option<(bool, u64, u64)>, String> {
        let dec = |x: &[u8]| {
            let mut cur = Cursor::new(x.to_vec());
            let r = guard(|| {
                let h = BoxHeader::read(&mut cur)?;
                B::read_box(&mut cur, h.size)
            });
            (r, x.len() as u64 - cur.position().min(x.len() as u64))
        };
        match (dec(a), dec(b)) {
            ((Err(p), _), _) | (_, (Err(p), _)) => Err(format!("PANIC {}", short_loc(&p))),
            ((Ok(Ok(va)), la), (Ok(Ok(vb)), lb)) => Ok(Some((va == vb, la, lb))),
            ((Ok(Err(_)), _), (Ok(Err(_)), _)) => Ok(None),
            ((Ok(Ok(_)), _), (Ok(Err(e)), _)) => Err(format!("the first form decodes, the second is refused: {}", e)),
            ((Ok(Err(e)), _), (Ok(Ok(_)), _)) => Err(format!("the second form decodes, the first is refused: {}", e)),
        }
    }
    fn lib_decode_eq_at(&self, lead: &[u8], bytes: &[u8]) -> Result<(bool, u64, String), String> {
        let mut all = lead.to_vec();
        all.extend_from_slice(bytes);
        let mut cur = Cursor::new(all);
        cur.set_position(lead.len() as u64);
        let r = guard(|| {
            let h = BoxHeader::read(&mut cur)?;
            B::read_box(&mut cur, h.size)
        });
        match r {
            Ok(Ok(v)) => Ok((v == self.lib, cur.position().wrapping_sub(lead.len() as u64), format!("{:?}", v))),
            Ok(Err(e)) => Err(format!("Err({})", e)),
            Err(p) => Err(format!("PANIC {}", short_loc(&p))),
        }
    }
    fn lib_fixpoint(&self, bytes: &[u8]) -> Result<Option<bool>, String> {
        let dec = |b: &[u8]| {
            let mut cur = Cursor::new(b.to_vec());
            guard(|| {
                let h = BoxHeader::read(&mut cur)?;
                B::read_box(&mut cur, h.size)
            })
        };
        let v1 = match dec(bytes) {
            Ok(Ok(v)) => v,
            Ok(Err(_)) => return Ok(None),
            Err(p) => return Err(format!("PANIC in decode {}", short_loc(&p))),
        };
        let mut out = vec![];
        match guard(|| v1.write_box(&mut out)) {
            Ok(Ok(_)) => {}
            Ok(Err(_)) => return Ok(None),
            Err(p) => return Err(format!("PANIC in re-encode {}", short_loc(&p))),
        }
        match dec(&out) {
            Ok(Ok(v2)) => Ok(Some(v2 == v1)),
            Ok(Err(e)) => Err(format!("re-encoded bytes do not decode: {}", e)),
            Err(p) => Err(format!("PANIC in second decode {}", short_loc(&p))),
        }
    }
    fn ref_bytes(&self, large: bool) -> Vec<u8> {
        let mut n = self.node.clone();
        n.large = large;
        serialize(&[n]).0
    }
    fn ref_bytes_descendant_large(&self) -> Vec<(String, Vec<u8>)> {
        fn paths(n: &Node, cur: &mut Vec<usize>, out: &mut Vec<Vec<usize>>) {
            if let Some(k) = n.children() {
                for (i, c) in k.iter().enumerate() {
                    cur.push(i);
                    out.push(cur.clone());
                    paths(c, cur, out);
                    cur.pop();
                }
            }
        }
        let mut all = vec![];
        paths(&self.node, &mut vec![], &mut all);
        all.iter()
            .map(|p| {
                let mut root = self.node.clone();
                let mut name = root.name();
                {
                    let mut n = &mut root;
                    for &i in p.iter() {
                        n = &mut n.children_mut().unwrap()[i];
                        name.push('/');
                        name.push_str(&n.name());
                    }
                    n.large = true;
                }
                (name, serialize(&[root]).0)
            })
            .collect()
    }
    fn ref_bytes_inserted_child(&self) -> Vec<(String, Vec<u8>, Vec<u8>)> {
        fn containers(n: &Node, cur: &mut Vec<usize>, out: &mut Vec<Vec<usize>>) {
            if let Some(k) = n.children() {
                out.push(cur.clone());
                for (i, c) in k.iter().enumerate() {
                    cur.push(i);
                    containers(c, cur, out);
                    cur.pop();
                }
            }
        }
        let mut all = vec![];
        containers(&self.node, &mut vec![], &mut all);
        let mut out = vec![];
        for p in all.iter() {
            let nk = {
                let mut n = &self.node;
                for &i in p.iter() {
                    n = &n.children().unwrap()[i];
                }
                n.children().unwrap().len()
            };
            for pos in 0..=nk {
                for (fname, filler) in [("free", Node::leaf(b"free", vec![0x5a; 3])), ("zzzz", Node::leaf(b"zzzz", vec![1, 2, 3, 4, 5]))] {
                    let build = |large: bool| {
                        let mut root = self.node.clone();
                        let mut name = root.name();
                        {
                            let mut n = &mut root;
                            for &i in p.iter() {
                                n = &mut n.children_mut().unwrap()[i];
                                name.push('/');
                                name.push_str(&n.name());
                            }
                            n.children_mut().unwrap().insert(pos, filler.clone().with_large(large));
                        }
                        (name, serialize(&[root]).0)
                    };
                    let (name, a) = build(false);
                    let (_, b) = build(true);
                    out.push((format!("{} inserted in {} at index {}", fname, name, pos), a, b));
                }
            }
        }
        out
    }
    fn mask(&self) -> Option<Vec<u8>> {
        self.payload_mask.as_ref().map(|m| {
            let mut full = vec![0xffu8; 8];
            full.extend(m.iter().map(|b| !*b));
            full
        })
    }
    fn decode_only(&self) -> bool {
        self.decode_only
    }
}

fn case<B>(tname: &'static str, shape: String, lib: B, node: Node) -> Box<dyn BoxCase>
where
    B: Mp4Box + PartialEq + std::fmt::Debug + 'static + for<'w> WriteBox<&'w mut Vec<u8>> + for<'r> ReadBox<&'r mut Cursor<Vec<u8>>> + for<'r> ReadBox<&'r mut Trickle>,
{
    Box::new(Case { tname, shape, lib, node, payload_mask: None, decode_only: false })
}

// ---------------------------------------------------------------------------------------------
// per-type generators: (library value, reference node) from one value source

fn fcc(b: [u8; 4]) -> FourCC {
    FourCC::from(b)
}

pub fn g_ftyp(n: usize, v: &mut V) -> (FtypBox, Node) {
    let major = v.fourcc();
    let minor = v.u32();
    let compat: Vec<[u8; 4]> = (0..n).map(|_| v.fourcc()).collect();
    (FtypBox { major_brand: fcc(major), minor_version: minor, compatible_brands: compat.iter().map(|c| fcc(*c)).collect() }, rb::ftyp(major, minor, &compat))
}

fn matrix(v: &mut V) -> ([i32; 9], Matrix) {
    let m: Vec<i32> = (0..9).map(|_| v.i32()).collect();
    ([m[0], m[1], m[2], m[3], m[4], m[5], m[6], m[7], m[8]], Matrix { a: m[0], b: m[1], u: m[2], c: m[3], d: m[4], v: m[5], x: m[6], y: m[7], w: m[8] })
}

fn t64(version: u8, v: &mut V) -> u64 {
    if version == 1 {
        v.u64()
    } else {
        v.u32() as u64
    }
}

pub fn g_mvhd(version: u8, v: &mut V) -> (MvhdBox, Node) {
    let flags = v.u24();
    let (c, m) = (t64(version, v), t64(version, v));
    let ts = v.u32();
    let d = t64(version, v);
    let rate = v.u32();
    let vol = v.u16();
    let (ma, ml) = matrix(v);
    let next = v.u32();
    (
        MvhdBox { version, flags, creation_time: c, modification_time: m, timescale: ts, duration: d, rate: FixedPointU16::new_raw(rate), volume: FixedPointU8::new_raw(vol), matrix: ml, next_track_id: next },
        rb::mvhd(&rb::Mvhd { version, flags, creation: c, modification: m, timescale: ts, duration: d, rate, volume: vol, matrix: ma, next_track_id: next }),
    )
}

pub fn g_tkhd(version: u8, v: &mut V) -> (TkhdBox, Node) {
    let flags = v.u24();
    let (c, m) = (t64(version, v), t64(version, v));
    let id = v.u32();
    let d = t64(version, v);
    let layer = v.u16();
    let alt = v.u16();
    let vol = v.u16();
    let (ma, ml) = matrix(v);
    let (w, h) = (v.u32(), v.u32());
    (
        TkhdBox { version, flags, creation_time: c, modification_time: m, track_id: id, duration: d, layer, alternate_group: alt, volume: FixedPointU8::new_raw(vol), matrix: ml, width: FixedPointU16::new_raw(w), height: FixedPointU16::new_raw(h) },
        rb::tkhd(&rb::Tkhd { version, flags, creation: c, modification: m, track_id: id, duration: d, layer, alternate_group: alt, volume: vol, matrix: ma, width: w, height: h }),
    )
}

pub fn g_mdhd(version: u8, v: &mut V) -> (MdhdBox, Node) {
    let flags = v.u24();
    let (c, m) = (t64(version, v), t64(version, v));
    let ts = v.u32();
    let d = t64(version, v);
    let lang = v.lang();
    (
        MdhdBox { version, flags, creation_time: c, modification_time: m, timescale: ts, duration: d, language: lang.iter().map(|b| *b as char).collect() },
        rb::mdhd(&rb::Mdhd { version, flags, creation: c, modification: m, timescale: ts, duration: d, language: lang }),
    )
}

pub fn g_hdlr(v: &mut V) -> (HdlrBox, Node) {
    let (ver, flags) = (v.u8(), v.u24());
    let h = v.fourcc();
    let name = v.string();
    (HdlrBox { version: ver, flags, handler_type: fcc(h), name: name.clone() }, rb::hdlr(ver, flags, &h, &name))
}

pub fn g_vmhd(v: &mut V) -> (VmhdBox, Node) {
    let (ver, flags) = (v.u8(), v.u24());
    let gm = v.u16();
    let c = [v.u16(), v.u16(), v.u16()];
    let mut n = rb::vmhd(flags, gm, c);
    if let crate::refmp4::tree::Body::Leaf(p) = &mut n.body {
        p[0] = ver;
    }
    (VmhdBox { version: ver, flags, graphics_mode: gm, op_color: RgbColor { red: c[0], green: c[1], blue: c[2] } }, n)
}

pub fn g_smhd(v: &mut V) -> (SmhdBox, Node) {
    let (ver, flags) = (v.u8(), v.u24());
    let b = v.u16() as i16;
    (SmhdBox { version: ver, flags, balance: FixedPointI8::new_raw(b) }, Node::leaf(b"smhd", W::new().full(ver, flags).i16(b).u16(0).done()))
}

pub fn g_url(with_location: bool, v: &mut V) -> (UrlBox, Node) {
    g_url_flag(with_location, !with_location, v)
}

/// `self_contained`: flag bit 0.  The usual coupling is "bit 0 set <=> no location string", but the two are separate
/// fields on the wire and every combination is a representable value.
pub fn g_url_flag(with_location: bool, self_contained: bool, v: &mut V) -> (UrlBox, Node) {
    let ver = v.u8();
    let flags = (v.u24() & !1) | if self_contained { 1 } else { 0 };
    let loc = if with_location {
        let s = v.string();
        if s.is_empty() {
            "u".to_string()
        } else {
            s
        }
    } else {
        String::new()
    };
    let mut w = W::new().full(ver, flags);
    if with_location {
        w = w.cstr(&loc);
    }
    (UrlBox { version: ver, flags, location: loc }, Node::leaf(b"url ", w.done()))
}

pub fn g_dref(url: Option<bool>, v: &mut V) -> (DrefBox, Node) {
    let (ver, flags) = (v.u8(), v.u24());
    let (lu, nu) = match url {
        Some(w) => {
            let (a, b) = g_url(w, v);
            (Some(a), vec![b])
        }
        None => (None, vec![]),
    };
    let n = nu.len() as u32;
    (DrefBox { version: ver, flags, url: lu }, Node::kids_with_prefix(b"dref", W::new().full(ver, flags).u32(n).done(), nu))
}

pub fn g_dinf(url: Option<bool>, v: &mut V) -> (DinfBox, Node) {
    let (d, n) = g_dref(url, v);
    (DinfBox::verif_new(d), Node::kids(b"dinf", vec![n]))
}

pub fn g_elst(version: u8, n: usize, v: &mut V) -> (ElstBox, Node) {
    let flags = v.u24();
    let e: Vec<rb::ElstEntry> = (0..n).map(|_| rb::ElstEntry { segment_duration: t64(version, v), media_time: t64(version, v), rate_int: v.u16(), rate_frac: v.u16() }).collect();
    (
        ElstBox { version, flags, entries: e.iter().map(|x| ElstEntry { segment_duration: x.segment_duration, media_time: x.media_time, media_rate: x.rate_int, media_rate_fraction: x.rate_frac }).collect() },
        rb::elst(version, flags, &e),
    )
}

pub fn g_edts(elst: Option<(u8, usize)>, v: &mut V) -> (EdtsBox, Node) {
    match elst {
        Some((ver, n)) => {
            let (l, nn) = g_elst(ver, n, v);
            (EdtsBox { elst: Some(l) }, rb::edts(Some(nn)))
        }
        None => (EdtsBox { elst: None }, rb::edts(None)),
    }
}

fn full_of(n: &mut Node, ver: u8, flags: u32) {
    if let crate::refmp4::tree::Body::Leaf(p) = &mut n.body {
        p[0] = ver;
        p[1..4].copy_from_slice(&flags.to_be_bytes()[1..]);
    }
}

pub fn g_stts(n: usize, v: &mut V) -> (SttsBox, Node) {
    let (ver, flags) = (v.u8(), v.u24());
    let e: Vec<(u32, u32)> = (0..n).map(|_| (v.u32(), v.u32())).collect();
    let mut node = rb::stts(&e);
    full_of(&mut node, ver, flags);
    (SttsBox { version: ver, flags, entries: e.iter().map(|x| SttsEntry { sample_count: x.0, sample_delta: x.1 }).collect() }, node)
}

pub fn g_ctts(version: u8, n: usize, v: &mut V) -> (CttsBox, Node) {
    let flags = v.u24();
    let e: Vec<(u32, i32)> = (0..n).map(|_| (v.u32(), v.i32())).collect();
    let mut node = rb::ctts(version, &e);
    full_of(&mut node, version, flags);
    (CttsBox { version, flags, entries: e.iter().map(|x| CttsEntry { sample_count: x.0, sample_offset: x.1 }).collect() }, node)
}

pub fn g_stss(n: usize, v: &mut V) -> (StssBox, Node) {
    let (ver, flags) = (v.u8(), v.u24());
    let e: Vec<u32> = (0..n).map(|_| v.u32()).collect();
    let mut node = rb::stss(&e);
    full_of(&mut node, ver, flags);
    (StssBox { version: ver, flags, entries: e }, node)
}

pub fn g_stsc(n: usize, v: &mut V) -> (StscBox, Node) {
    let (ver, flags) = (v.u8(), v.u24());
    // first_chunk strictly increasing and samples_per_chunk small on all but the last entry, so that the
    // running sample number the decoder derives stays within u32 (otherwise the value is not decodable by design)
    let mut e: Vec<(u32, u32, u32)> = vec![];
    let mut fc = 1u32;
    for i in 0..n {
        let spc = if i + 1 == n { v.u32() } else { 1 + (v.bits(3) as u32) };
        let sdi = v.u32();
        e.push((fc, spc, sdi));
        fc += 1 + (i as u32 % 2);
    }
    let mut node = rb::stsc(&e);
    full_of(&mut node, ver, flags);
    let mut entries = vec![];
    let mut sample_id = 1u32;
    for (i, x) in e.iter().enumerate() {
        entries.push(StscEntry { first_chunk: x.0, samples_per_chunk: x.1, sample_description_index: x.2, first_sample: sample_id });
        if i + 1 < e.len() {
            sample_id += (e[i + 1].0 - x.0) * x.1;
        }
    }
    (StscBox { version: ver, flags, entries }, node)
}

pub fn g_stsz(constant: bool, n: usize, v: &mut V) -> (StszBox, Node) {
    let (ver, flags) = (v.u8(), v.u24());
    if constant {
        let size = (v.u32()).max(1);
        let count = v.u32();
        let mut node = rb::stsz(size, count, &[]);
        full_of(&mut node, ver, flags);
        (StszBox { version: ver, flags, sample_size: size, sample_count: count, sample_sizes: vec![] }, node)
    } else {
        let sizes: Vec<u32> = (0..n).map(|_| v.u32()).collect();
        let mut node = rb::stsz(0, n as u32, &sizes);
        full_of(&mut node, ver, flags);
        (StszBox { version: ver, flags, sample_size: 0, sample_count: n as u32, sample_sizes: sizes }, node)
    }
}

pub fn g_stco(n: usize, v: &mut V) -> (StcoBox, Node) {
    let (ver, flags) = (v.u8(), v.u24());
    let e: Vec<u32> = (0..n).map(|_| v.u32()).collect();
    let mut node = rb::stco_abs(&e);
    full_of(&mut node, ver, flags);
    (StcoBox { version: ver, flags, entries: e }, node)
}

pub fn g_co64(n: usize, v: &mut V) -> (Co64Box, Node) {
    let (ver, flags) = (v.u8(), v.u24());
    let e: Vec<u64> = (0..n).map(|_| v.u64()).collect();
    let mut node = rb::co64_abs(&e);
    full_of(&mut node, ver, flags);
    (Co64Box { version: ver, flags, entries: e }, node)
}

fn visual(v: &mut V) -> rb::Visual {
    rb::Visual { data_reference_index: v.u16(), width: v.u16(), height: v.u16(), hres: v.u32(), vres: v.u32(), frame_count: v.u16(), compressor: [0; 32], depth: v.u16() }
}

pub fn g_avcc(nsps: usize, npps: usize, nal_len: usize, v: &mut V) -> (AvcCBox, Node) {
    let a = rb::AvcC {
        configuration_version: v.u8(),
        profile: v.u8(),
        compat: v.u8(),
        level: v.u8(),
        length_size_minus_one: v.bits(2) as u8,
        sps: (0..nsps).map(|_| v.bytes(nal_len)).collect(),
        pps: (0..npps).map(|_| v.bytes(nal_len + 1)).collect(),
    };
    (
        AvcCBox {
            configuration_version: a.configuration_version,
            avc_profile_indication: a.profile,
            profile_compatibility: a.compat,
            avc_level_indication: a.level,
            length_size_minus_one: a.length_size_minus_one,
            sequence_parameter_sets: a.sps.iter().map(|b| NalUnit { bytes: b.clone() }).collect(),
            picture_parameter_sets: a.pps.iter().map(|b| NalUnit { bytes: b.clone() }).collect(),
        },
        rb::avcc(&a),
    )
}

pub fn g_avc1(nsps: usize, npps: usize, v: &mut V) -> (Avc1Box, Node) {
    let vis = visual(v);
    let (a, an) = g_avcc(nsps, npps, 5, v);
    let mut n = rb::avc1(&vis, &rb::AvcC { configuration_version: 0, profile: 0, compat: 0, level: 0, length_size_minus_one: 0, sps: vec![], pps: vec![] });
    n.children_mut().unwrap()[0] = an;
    (
        Avc1Box { data_reference_index: vis.data_reference_index, width: vis.width, height: vis.height, horizresolution: FixedPointU16::new_raw(vis.hres), vertresolution: FixedPointU16::new_raw(vis.vres), frame_count: vis.frame_count, depth: vis.depth, avcc: a },
        n,
    )
}

pub fn g_hvcc(arrays: &[usize], v: &mut V) -> (HvcCBox, Node, Vec<u8>) {
    let lens: Vec<Vec<usize>> = arrays.iter().map(|&n| (0..n).map(|j| 2 + j).collect()).collect();
    g_hvcc_lens(&lens, v)
}

/// hvcC with the given parameter-set lengths per array (lengths 0 and 1 are legal on the wire).
pub fn g_hvcc_lens(lens: &[Vec<usize>], v: &mut V) -> (HvcCBox, Node, Vec<u8>) {
    let h = rb::HvcC {
        configuration_version: v.u8(),
        profile_space: v.bits(2) as u8,
        tier_flag: v.flag(),
        profile_idc: v.bits(5) as u8,
        compat_flags: v.u32(),
        constraint_flags: v.bits(48),
        level_idc: v.u8(),
        min_spatial_segmentation_idc: v.bits(12) as u16,
        parallelism_type: v.bits(2) as u8,
        chroma_format: v.bits(2) as u8,
        bit_depth_luma_minus8: v.bits(3) as u8,
        bit_depth_chroma_minus8: v.bits(3) as u8,
        avg_frame_rate: v.u16(),
        constant_frame_rate: v.bits(2) as u8,
        num_temporal_layers: v.bits(3) as u8,
        temporal_id_nested: v.flag(),
        length_size_minus_one: v.bits(2) as u8,
        arrays: lens.iter().map(|ls| (v.flag(), v.bits(6) as u8, ls.iter().map(|&l| v.bytes(l)).collect())).collect(),
    };
    let node = rb::hvcc(&h);
    let plen = if let crate::refmp4::tree::Body::Leaf(p) = &node.body { p.len() } else { 0 };
    let mask = rb::hvcc_reserved_mask(plen, &h.arrays);
    (
        HvcCBox {
            configuration_version: h.configuration_version,
            general_profile_space: h.profile_space,
            general_tier_flag: h.tier_flag,
            general_profile_idc: h.profile_idc,
            general_profile_compatibility_flags: h.compat_flags,
            general_constraint_indicator_flag: h.constraint_flags,
            general_level_idc: h.level_idc,
            min_spatial_segmentation_idc: h.min_spatial_segmentation_idc,
            parallelism_type: h.parallelism_type,
            chroma_format_idc: h.chroma_format,
            bit_depth_luma_minus8: h.bit_depth_luma_minus8,
            bit_depth_chroma_minus8: h.bit_depth_chroma_minus8,
            avg_frame_rate: h.avg_frame_rate,
            constant_frame_rate: h.constant_frame_rate,
            num_temporal_layers: h.num_temporal_layers,
            temporal_id_nested: h.temporal_id_nested,
            length_size_minus_one: h.length_size_minus_one,
            arrays: h.arrays.iter().map(|(c, t, ns)| HvcCArray { completeness: *c, nal_unit_type: *t, nalus: ns.iter().map(|d| HvcCArrayNalu { size: d.len() as u16, data: d.clone() }).collect() }).collect(),
        },
        node,
        mask,
    )
}

pub fn g_hev1(arrays: &[usize], v: &mut V) -> (Hev1Box, Node, Vec<u8>) {
    let lens: Vec<Vec<usize>> = arrays.iter().map(|&n| (0..n).map(|j| 2 + j).collect()).collect();
    g_hev1_lens(&lens, v)
}

pub fn g_hev1_lens(lens: &[Vec<usize>], v: &mut V) -> (Hev1Box, Node, Vec<u8>) {
    let vis = visual(v);
    let (h, hn, hm) = g_hvcc_lens(lens, v);
    let mut n = rb::hev1(&vis, &rb::HvcC::default());
    n.children_mut().unwrap()[0] = hn;
    // mask over the hev1 payload: 78 sample-entry bytes + 8 header bytes of hvcC + hvcC payload
    let mut mask = vec![0u8; 78 + 8];
    mask.extend(hm);
    (
        Hev1Box { data_reference_index: vis.data_reference_index, width: vis.width, height: vis.height, horizresolution: FixedPointU16::new_raw(vis.hres), vertresolution: FixedPointU16::new_raw(vis.vres), frame_count: vis.frame_count, depth: vis.depth, hvcc: h },
        n,
        mask,
    )
}

pub fn g_vpcc(v: &mut V) -> (VpccBox, Node) {
    let c = rb::VpcC { version: v.u8(), flags: v.u24(), profile: v.u8(), level: v.u8(), bit_depth: v.bits(4) as u8, chroma_subsampling: v.bits(3) as u8, full_range: v.flag(), colour_primaries: v.u8(), transfer: v.u8(), matrix: v.u8(), init_data: vec![] };
    (
        VpccBox {
            version: c.version,
            flags: c.flags,
            profile: c.profile,
            level: c.level,
            bit_depth: c.bit_depth,
            chroma_subsampling: c.chroma_subsampling,
            video_full_range_flag: c.full_range,
            color_primaries: c.colour_primaries,
            transfer_characteristics: c.transfer,
            matrix_coefficients: c.matrix,
            codec_initialization_data_size: 0,
        },
        rb::vpcc(&c),
    )
}

pub fn g_vp09(v: &mut V) -> (Vp09Box, Node) {
    let mut vis = visual(v);
    let comp = v.bytes(32);
    vis.compressor.copy_from_slice(&comp);
    let (c, cn) = g_vpcc(v);
    let mut n = rb::vp09(&vis, &rb::VpcC::default());
    n.children_mut().unwrap()[0] = cn;
    (
        Vp09Box {
            version: 0,
            flags: 0,
            start_code: 0,
            data_reference_index: vis.data_reference_index,
            reserved0: [0; 16],
            width: vis.width,
            height: vis.height,
            horizresolution: ((vis.hres >> 16) as u16, vis.hres as u16),
            vertresolution: ((vis.vres >> 16) as u16, vis.vres as u16),
            reserved1: [0; 4],
            frame_count: vis.frame_count,
            compressorname: vis.compressor,
            depth: vis.depth,
            end_code: 0xffff,
            vpcc: c,
        },
        n,
    )
}

pub fn g_esds(aot: u8, freq_index: u8, v: &mut V) -> (EsdsBox, Node, rb::Esds) {
    let e = rb::Esds {
        version: v.u8(),
        flags: v.u24(),
        es_id: v.u16(),
        object_type_indication: v.u8(),
        stream_type: v.bits(6) as u8,
        up_stream: v.flag(),
        buffer_size_db: v.u24(),
        max_bitrate: v.u32(),
        avg_bitrate: v.u32(),
        audio_object_type: aot,
        freq_index,
        frequency: 0,
        chan_conf: v.bits(4) as u8,
        len_bytes: 1,
    };
    (
        EsdsBox {
            version: e.version,
            flags: e.flags,
            es_desc: ESDescriptor {
                es_id: e.es_id,
                dec_config: DecoderConfigDescriptor {
                    object_type_indication: e.object_type_indication,
                    stream_type: e.stream_type,
                    up_stream: if e.up_stream { 2 } else { 0 },
                    buffer_size_db: e.buffer_size_db,
                    max_bitrate: e.max_bitrate,
                    avg_bitrate: e.avg_bitrate,
                    dec_specific: DecoderSpecificDescriptor { profile: aot, freq_index, chan_conf: e.chan_conf },
                },
                sl_config: SLConfigDescriptor {},
            },
        },
        rb::esds(&e),
        e,
    )
}

pub fn g_mp4a(esds: Option<(u8, u8)>, v: &mut V) -> (Mp4aBox, Node) {
    let a = rb::Audio { data_reference_index: v.u16(), channelcount: v.u16(), samplesize: v.u16(), samplerate: v.u32(), qt_version: 0 };
    let (le, ne) = match esds {
        Some((aot, fi)) => {
            let (l, n, _) = g_esds(aot, fi, v);
            (Some(l), Some(n))
        }
        None => (None, None),
    };
    let mut n = rb::mp4a(&a, None);
    if let Some(ne) = ne {
        n.children_mut().unwrap().push(ne);
    }
    (Mp4aBox { data_reference_index: a.data_reference_index, channelcount: a.channelcount, samplesize: a.samplesize, samplerate: FixedPointU16::new_raw(a.samplerate), esds: le }, n)
}

pub fn g_tx3g(v: &mut V) -> (Tx3gBox, Node) {
    let t = rb::Tx3g {
        data_reference_index: v.u16(),
        display_flags: v.u32(),
        h_just: v.u8() as i8,
        v_just: v.u8() as i8,
        bg: [v.u8(), v.u8(), v.u8(), v.u8()],
        box_record: [v.u16() as i16, v.u16() as i16, v.u16() as i16, v.u16() as i16],
        style: {
            let b = v.bytes(12);
            let mut a = [0u8; 12];
            a.copy_from_slice(&b);
            a
        },
    };
    (
        Tx3gBox { data_reference_index: t.data_reference_index, display_flags: t.display_flags, horizontal_justification: t.h_just, vertical_justification: t.v_just, bg_color_rgba: RgbaColor { red: t.bg[0], green: t.bg[1], blue: t.bg[2], alpha: t.bg[3] }, box_record: t.box_record, style_record: t.style },
        rb::tx3g(&t),
    )
}

/// entry: 0 avc1, 1 hev1, 2 vp09, 3 mp4a, 4 tx3g
pub fn g_stsd(entry: usize, v: &mut V) -> (StsdBox, Node, Option<Vec<u8>>) {
    let (ver, flags) = (v.u8(), v.u24());
    let mut s = StsdBox { version: ver, flags, avc1: None, hev1: None, vp09: None, mp4a: None, tx3g: None };
    let mut mask = None;
    let node = match entry {
        0 => {
            let (l, n) = g_avc1(1, 1, v);
            s.avc1 = Some(l);
            n
        }
        1 => {
            let (l, n, m) = g_hev1(&[1], v);
            s.hev1 = Some(l);
            // stsd payload = 8 bytes (version/flags/count) + hev1 header (8) + hev1 payload
            let mut mm = vec![0u8; 16];
            mm.extend(m);
            mask = Some(mm);
            n
        }
        2 => {
            let (l, n) = g_vp09(v);
            s.vp09 = Some(l);
            n
        }
        3 => {
            let (l, n) = g_mp4a(Some((2, 4)), v);
            s.mp4a = Some(l);
            n
        }
        _ => {
            let (l, n) = g_tx3g(v);
            s.tx3g = Some(l);
            n
        }
    };
    (s, Node::kids_with_prefix(b"stsd", W::new().full(ver, flags).u32(1).done(), vec![node]), mask)
}

pub fn g_stbl(ctts: bool, stss: bool, co64: bool, v: &mut V) -> (StblBox, Node) {
    let (sd, sdn, _) = g_stsd(0, v);
    let (tt, ttn) = g_stts(1, v);
    let mut kids = vec![sdn, ttn];
    let c = if ctts {
        let (a, b) = g_ctts(0, 1, v);
        kids.push(b);
        Some(a)
    } else {
        None
    };
    let s = if stss {
        let (a, b) = g_stss(1, v);
        kids.push(b);
        Some(a)
    } else {
        None
    };
    let (sc, scn) = g_stsc(1, v);
    let (sz, szn) = g_stsz(false, 1, v);
    kids.push(scn);
    kids.push(szn);
    let (mut so, mut c6) = (None, None);
    if co64 {
        let (a, b) = g_co64(1, v);
        kids.push(b);
        c6 = Some(a);
    } else {
        let (a, b) = g_stco(1, v);
        kids.push(b);
        so = Some(a);
    }
    (StblBox { stsd: sd, stts: tt, ctts: c, stss: s, stsc: sc, stsz: sz, stco: so, co64: c6 }, Node::kids(b"stbl", kids))
}

pub fn g_minf(vmhd: bool, smhd: bool, v: &mut V) -> (MinfBox, Node) {
    let mut kids = vec![];
    let vm = if vmhd {
        let (a, b) = g_vmhd(v);
        kids.push(b);
        Some(a)
    } else {
        None
    };
    let sm = if smhd {
        let (a, b) = g_smhd(v);
        kids.push(b);
        Some(a)
    } else {
        None
    };
    let (d, dn) = g_dinf(Some(false), v);
    let (s, sn) = g_stbl(false, false, false, v);
    kids.push(dn);
    kids.push(sn);
    (MinfBox { vmhd: vm, smhd: sm, dinf: d, stbl: s }, Node::kids(b"minf", kids))
}

pub fn g_mdia(v: &mut V) -> (MdiaBox, Node) {
    let (a, an) = g_mdhd(0, v);
    let (b, bn) = g_hdlr(v);
    let (c, cn) = g_minf(true, false, v);
    (MdiaBox { mdhd: a, hdlr: b, minf: c }, Node::kids(b"mdia", vec![an, bn, cn]))
}

pub fn g_meta_mdir(items: &[usize], v: &mut V) -> (MetaBox, Node) {
    let (il, iln) = g_ilst(items, v);
    (MetaBox::Mdir { ilst: Some(il) }, rb::meta(true, vec![rb::hdlr(0, 0, b"mdir", ""), iln]))
}

pub fn g_trak(edts: bool, meta: bool, v: &mut V) -> (TrakBox, Node) {
    let (t, tn) = g_tkhd(0, v);
    let mut kids = vec![tn];
    let e = if edts {
        let (a, b) = g_edts(Some((0, 1)), v);
        kids.push(b);
        Some(a)
    } else {
        None
    };
    let m = if meta {
        let (a, b) = g_meta_mdir(&[0], v);
        kids.push(b);
        Some(a)
    } else {
        None
    };
    let (md, mdn) = g_mdia(v);
    kids.push(mdn);
    (TrakBox { tkhd: t, edts: e, meta: m, mdia: md }, Node::kids(b"trak", kids))
}

pub fn g_mehd(version: u8, v: &mut V) -> (MehdBox, Node) {
    let flags = v.u24();
    let d = t64(version, v);
    let mut n = rb::mehd(version, d);
    full_of(&mut n, version, flags);
    (MehdBox { version, flags, fragment_duration: d }, n)
}

pub fn g_trex(v: &mut V) -> (TrexBox, Node) {
    let (ver, flags) = (v.u8(), v.u24());
    let x = [v.u32(), v.u32(), v.u32(), v.u32(), v.u32()];
    let mut n = rb::trex(x[0], x[1], x[2], x[3], x[4]);
    full_of(&mut n, ver, flags);
    (TrexBox { version: ver, flags, track_id: x[0], default_sample_description_index: x[1], default_sample_duration: x[2], default_sample_size: x[3], default_sample_flags: x[4] }, n)
}

pub fn g_mvex(mehd: Option<u8>, v: &mut V) -> (MvexBox, Node) {
    let mut kids = vec![];
    let m = mehd.map(|ver| {
        let (a, b) = g_mehd(ver, v);
        kids.push(b);
        a
    });
    let (t, tn) = g_trex(v);
    kids.push(tn);
    (MvexBox { mehd: m, trex: t }, Node::kids(b"mvex", kids))
}

pub fn g_udta(meta: bool, v: &mut V) -> (UdtaBox, Node) {
    if meta {
        let (m, mn) = g_meta_mdir(&[2], v);
        (UdtaBox { meta: Some(m) }, rb::udta(vec![mn]))
    } else {
        (UdtaBox { meta: None }, rb::udta(vec![]))
    }
}

pub fn g_moov(ntraks: usize, meta: bool, mvex: bool, udta: bool, v: &mut V) -> (MoovBox, Node) {
    // child order carries no meaning; the reference tree uses the order the library writes (mvhd, trak*, mvex, meta, udta)
    let (mv, mvn) = g_mvhd(0, v);
    let mut kids = vec![mvn];
    let mut traks = vec![];
    for _ in 0..ntraks {
        let (a, b) = g_trak(false, false, v);
        kids.push(b);
        traks.push(a);
    }
    let mx = if mvex {
        let (a, b) = g_mvex(None, v);
        kids.push(b);
        Some(a)
    } else {
        None
    };
    let me = if meta {
        let (a, b) = g_meta_mdir(&[1], v);
        kids.push(b);
        Some(a)
    } else {
        None
    };
    let ud = if udta {
        let (a, b) = g_udta(true, v);
        kids.push(b);
        Some(a)
    } else {
        None
    };
    (MoovBox { mvhd: mv, meta: me, mvex: mx, traks, udta: ud }, Node::kids(b"moov", kids))
}

pub fn g_mfhd(v: &mut V) -> (MfhdBox, Node) {
    let (ver, flags) = (v.u8(), v.u24());
    let s = v.u32();
    let mut n = rb::mfhd(s);
    full_of(&mut n, ver, flags);
    (MfhdBox { version: ver, flags, sequence_number: s }, n)
}

pub fn g_tfhd(present: u8, v: &mut V) -> (TfhdBox, Node) {
    let ver = v.u8();
    let extra = v.u24() & 0xffffc4 & !0x3b; // any bits that do not gate fields
    let id = v.u32();
    let t = rb::Tfhd {
        version: ver,
        extra_flags: extra,
        track_id: id,
        base_data_offset: if present & 1 != 0 { Some(v.u64()) } else { None },
        sample_description_index: if present & 2 != 0 { Some(v.u32()) } else { None },
        default_sample_duration: if present & 4 != 0 { Some(v.u32()) } else { None },
        default_sample_size: if present & 8 != 0 { Some(v.u32()) } else { None },
        default_sample_flags: if present & 16 != 0 { Some(v.u32()) } else { None },
    };
    (
        TfhdBox { version: ver, flags: t.flags(), track_id: id, base_data_offset: t.base_data_offset, sample_description_index: t.sample_description_index, default_sample_duration: t.default_sample_duration, default_sample_size: t.default_sample_size, default_sample_flags: t.default_sample_flags },
        rb::tfhd(&t),
    )
}

pub fn g_tfdt(version: u8, v: &mut V) -> (TfdtBox, Node) {
    let flags = v.u24();
    let t = t64(version, v);
    let mut n = rb::tfdt(version, t);
    full_of(&mut n, version, flags);
    (TfdtBox { version, flags, base_media_decode_time: t }, n)
}

pub fn g_trun(version: u8, present: u8, n: usize, v: &mut V) -> (TrunBox, Node) {
    let t = rb::Trun {
        version,
        sample_count: n as u32,
        data_offset: if present & 1 != 0 { Some(v.i32()) } else { None },
        first_sample_flags: if present & 2 != 0 { Some(v.u32()) } else { None },
        durations: if present & 4 != 0 { Some((0..n).map(|_| v.u32()).collect()) } else { None },
        sizes: if present & 8 != 0 { Some((0..n).map(|_| v.u32()).collect()) } else { None },
        flags_: if present & 16 != 0 { Some((0..n).map(|_| v.u32()).collect()) } else { None },
        cts: if present & 32 != 0 { Some((0..n).map(|_| v.i32()).collect()) } else { None },
    };
    (
        TrunBox {
            version,
            flags: t.flags(),
            sample_count: n as u32,
            data_offset: t.data_offset,
            first_sample_flags: t.first_sample_flags,
            sample_durations: t.durations.clone().unwrap_or_default(),
            sample_sizes: t.sizes.clone().unwrap_or_default(),
            sample_flags: t.flags_.clone().unwrap_or_default(),
            sample_cts: t.cts.clone().unwrap_or_default().iter().map(|x| *x as u32).collect(),
        },
        rb::trun(&t),
    )
}

pub fn g_traf(tfdt: bool, trun: bool, v: &mut V) -> (TrafBox, Node) {
    let (h, hn) = g_tfhd(0b10101, v);
    let mut kids = vec![hn];
    let d = if tfdt {
        let (a, b) = g_tfdt(1, v);
        kids.push(b);
        Some(a)
    } else {
        None
    };
    let r = if trun {
        let (a, b) = g_trun(0, 0b001101, 2, v);
        kids.push(b);
        Some(a)
    } else {
        None
    };
    (TrafBox { tfhd: h, tfdt: d, trun: r }, Node::kids(b"traf", kids))
}

pub fn g_moof(ntrafs: usize, v: &mut V) -> (MoofBox, Node) {
    let (m, mn) = g_mfhd(v);
    let mut kids = vec![mn];
    let mut trafs = vec![];
    for _ in 0..ntrafs {
        let (a, b) = g_traf(true, true, v);
        kids.push(b);
        trafs.push(a);
    }
    (MoofBox { mfhd: m, trafs }, Node::kids(b"moof", kids))
}

pub fn g_emsg(version: u8, data_len: usize, v: &mut V) -> (EmsgBox, Node) {
    let e = rb::Emsg { version, flags: v.u24(), timescale: v.u32(), presentation_time: if version == 1 { v.u64() } else { 0 }, presentation_time_delta: if version == 0 { v.u32() } else { 0 }, event_duration: v.u32(), id: v.u32(), scheme: v.string(), value: v.string(), data: v.bytes(data_len) };
    (
        EmsgBox {
            version,
            flags: e.flags,
            timescale: e.timescale,
            presentation_time: if version == 1 { Some(e.presentation_time) } else { None },
            presentation_time_delta: if version == 0 { Some(e.presentation_time_delta) } else { None },
            event_duration: e.event_duration,
            id: e.id,
            scheme_id_uri: e.scheme.clone(),
            value: e.value.clone(),
            message_data: e.data.clone(),
        },
        rb::emsg(&e),
    )
}

pub fn g_data(type_code: u32, len: usize, v: &mut V) -> (DataBox, Node) {
    use std::convert::TryFrom;
    let d = v.bytes(len);
    (DataBox { data: d.clone(), data_type: DataType::try_from(type_code).unwrap() }, rb::data_box(type_code, &d))
}

/// items: indices into [title, year, poster, summary]
pub fn g_ilst(items: &[usize], v: &mut V) -> (IlstBox, Node) {
    let mut map = HashMap::new();
    let mut nodes = vec![];
    for &i in items {
        let (key, cc, ty): (MetadataKey, [u8; 4], u32) = match i {
            0 => (MetadataKey::Title, [0xa9, b'n', b'a', b'm'], 1),
            1 => (MetadataKey::Year, [0xa9, b'd', b'a', b'y'], 1),
            2 => (MetadataKey::Poster, *b"covr", 13),
            _ => (MetadataKey::Summary, *b"desc", 1),
        };
        let (d, dn) = g_data(ty, 3 + i, v);
        map.insert(key, IlstItemBox { data: d });
        nodes.push(Node::kids(&cc, vec![dn]));
    }
    (IlstBox { items: map }, rb::ilst(nodes))
}

/// Child types of a meta box with an unknown handler: opaque ones and ones that mean something elsewhere in the format.
pub const META_CHILD_KINDS: [[u8; 4]; 6] = [*b"key0", *b"free", *b"ilst", *b"data", *b"skip", *b"mdat"];

pub fn g_meta_unknown(kinds: &[usize], v: &mut V) -> (MetaBox, Node) {
    let nkids = kinds.len();
    let (h, hn) = g_hdlr(v);
    let h = HdlrBox { handler_type: fcc(*b"mdta"), ..h };
    let mut hn = hn;
    if let crate::refmp4::tree::Body::Leaf(p) = &mut hn.body {
        p[8..12].copy_from_slice(b"mdta");
    }
    let mut data = vec![];
    let mut kids = vec![hn];
    for i in 0..nkids {
        let cc = META_CHILD_KINDS[kinds[i]];
        let b = v.bytes(4 + i);
        data.push((BoxType::from(u32::from_be_bytes(cc)), b.clone()));
        kids.push(Node::leaf(&cc, b));
    }
    (MetaBox::Unknown { hdlr: h, data }, rb::meta(true, kids))
}

// ---------------------------------------------------------------------------------------------
// enumeration of all shapes x value modes

thread_local! {
    static TWO_HOT_ON: std::cell::Cell<bool> = const { std::cell::Cell::new(false) };
}

fn modes<F: FnMut(&mut V)>(mut f: F) {
    // count the fields with a fingerprint pass, then run zero / ones / fingerprint / every one-hot
    let mut v = V::new(2);
    f(&mut v);
    let fields = v.n;
    for m in (0..2).chain(3..3 + fields) {
        let mut v = V::new(m);
        f(&mut v);
    }
    // thorough tier: every pair of fields at their maximum together (interactions between two fields)
    if fields < 1000 && fields <= if TWO_HOT_ON.with(|t| t.get()) { 220 } else { 70 } {
        for a in 0..fields {
            for b in a + 1..fields {
                let mut v = V::new(TWO_HOT + a * 1000 + b);
                f(&mut v);
            }
        }
    }
}

pub fn all_cases(tier: Tier) -> Vec<Box<dyn BoxCase>> {
    let th = tier == Tier::Thorough;
    TWO_HOT_ON.with(|t| t.set(th));
    let lmax = if th { 5 } else { 3 };
    let mut out: Vec<Box<dyn BoxCase>> = vec![];
    macro_rules! add {
        ($name:literal, $shape:expr, $gen:expr) => {{
            let shape: String = $shape;
            modes(|v| {
                let (l, n) = $gen(v);
                out.push(case($name, format!("{} mode={}", shape, v.mode), l, n));
            });
        }};
    }
    for n in 0..=lmax + 1 {
        add!("ftyp", format!("compat={}", n), |v: &mut V| g_ftyp(n, v));
    }
    for ver in [0u8, 1] {
        add!("mvhd", format!("v{}", ver), |v: &mut V| g_mvhd(ver, v));
        add!("tkhd", format!("v{}", ver), |v: &mut V| g_tkhd(ver, v));
        add!("mdhd", format!("v{}", ver), |v: &mut V| g_mdhd(ver, v));
        add!("mehd", format!("v{}", ver), |v: &mut V| g_mehd(ver, v));
        add!("tfdt", format!("v{}", ver), |v: &mut V| g_tfdt(ver, v));
        for n in 0..=lmax {
            add!("elst", format!("v{} n={}", ver, n), |v: &mut V| g_elst(ver, n, v));
            add!("ctts", format!("v{} n={}", ver, n), |v: &mut V| g_ctts(ver, n, v));
        }
        for len in [0usize, 1, 5] {
            add!("emsg", format!("v{} data={}", ver, len), |v: &mut V| g_emsg(ver, len, v));
        }
        for present in 0..64u8 {
            for n in 0..=lmax {
                add!("trun", format!("v{} present={:06b} n={}", ver, present, n), |v: &mut V| g_trun(ver, present, n, v));
            }
        }
    }
    add!("hdlr", "".into(), |v: &mut V| g_hdlr(v));
    add!("vmhd", "".into(), |v: &mut V| g_vmhd(v));
    add!("smhd", "".into(), |v: &mut V| g_smhd(v));
    add!("trex", "".into(), |v: &mut V| g_trex(v));
    add!("mfhd", "".into(), |v: &mut V| g_mfhd(v));
    add!("tx3g", "".into(), |v: &mut V| g_tx3g(v));
    add!("vpcC", "".into(), |v: &mut V| g_vpcc(v));
    add!("vp09", "".into(), |v: &mut V| g_vp09(v));
    for w in [false, true] {
        for sc in [false, true] {
            add!("url ", format!("location={} self_contained_flag={}", w, sc), |v: &mut V| g_url_flag(w, sc, v));
        }
    }
    for u in [None, Some(false), Some(true)] {
        add!("dref", format!("url={:?}", u), |v: &mut V| g_dref(u, v));
        add!("dinf", format!("url={:?}", u), |v: &mut V| g_dinf(u, v));
    }
    for e in [None, Some((0u8, 0usize)), Some((0, 2)), Some((1, 1))] {
        add!("edts", format!("elst={:?}", e), |v: &mut V| g_edts(e, v));
    }
    for n in 0..=lmax {
        add!("stts", format!("n={}", n), |v: &mut V| g_stts(n, v));
        add!("stss", format!("n={}", n), |v: &mut V| g_stss(n, v));
        add!("stsc", format!("n={}", n), |v: &mut V| g_stsc(n, v));
        add!("stsz", format!("variable n={}", n), |v: &mut V| g_stsz(false, n, v));
        add!("stco", format!("n={}", n), |v: &mut V| g_stco(n, v));
        add!("co64", format!("n={}", n), |v: &mut V| g_co64(n, v));
    }
    add!("stsz", "constant".into(), |v: &mut V| g_stsz(true, 0, v));
    for nsps in [0usize, 1, 2, 31] {
        for npps in [0usize, 1, 2, 255] {
            if (nsps > 2 || npps > 2) && !(nsps <= 1 || npps <= 1) {
                continue;
            }
            add!("avcC", format!("sps={} pps={}", nsps, npps), |v: &mut V| g_avcc(nsps, npps, 4, v));
        }
    }
    // parameter sets of length 0 and 1 (legal on the wire), also in last position
    for (nsps, npps, len) in [(1usize, 1usize, 0usize), (1, 1, 1), (2, 2, 0), (1, 0, 0), (0, 1, 0)] {
        add!("avcC", format!("sps={} pps={} nal_len={}", nsps, npps, len), |v: &mut V| g_avcc(nsps, npps, len, v));
    }
    for lens in [vec![vec![0usize]], vec![vec![1]], vec![vec![4, 0]], vec![vec![0, 4]], vec![vec![3], vec![0]], vec![vec![0], vec![3]], vec![vec![0, 0, 0]], vec![vec![4, 1]], vec![vec![], vec![0]]] {
        let shape = format!("nal_lengths={:?}", lens);
        modes(|v| {
            let (l, n, m) = g_hvcc_lens(&lens, v);
            out.push(Box::new(Case { tname: "hvcC", shape: format!("{} mode={}", shape, v.mode), lib: l, node: n, payload_mask: Some(m), decode_only: false }));
        });
        modes(|v| {
            let (l, n, m) = g_hev1_lens(&lens, v);
            out.push(Box::new(Case { tname: "hev1", shape: format!("{} mode={}", shape, v.mode), lib: l, node: n, payload_mask: Some(m), decode_only: false }));
        });
    }
    for (s, p) in [(1usize, 1usize), (0, 0), (2, 2)] {
        add!("avc1", format!("sps={} pps={}", s, p), |v: &mut V| g_avc1(s, p, v));
    }
    for arrays in [vec![], vec![0usize], vec![1], vec![2, 1], vec![1, 0, 3]] {
        let shape = format!("arrays={:?}", arrays);
        modes(|v| {
            let (l, n, m) = g_hvcc(&arrays, v);
            out.push(Box::new(Case { tname: "hvcC", shape: format!("{} mode={}", shape, v.mode), lib: l, node: n, payload_mask: Some(m), decode_only: false }));
        });
        modes(|v| {
            let (l, n, m) = g_hev1(&arrays, v);
            out.push(Box::new(Case { tname: "hev1", shape: format!("{} mode={}", shape, v.mode), lib: l, node: n, payload_mask: Some(m), decode_only: false }));
        });
    }
    // esds / mp4a: every object type (compact and escaped form) x frequency indices
    for aot in [1u8, 2, 5, 29, 30, 32, 34, 36, 46] {
        for fi in [0u8, 3, 4, 12] {
            modes(|v| {
                let (l, n, _) = g_esds(aot, fi, v);
                out.push(case("esds", format!("aot={} freq_index={} mode={}", aot, fi, v.mode), l, n));
            });
        }
    }
    for e in [None, Some((2u8, 4u8)), Some((34, 3))] {
        add!("mp4a", format!("esds={:?}", e), |v: &mut V| g_mp4a(e, v));
    }
    for entry in 0..5usize {
        modes(|v| {
            let (l, n, m) = g_stsd(entry, v);
            out.push(Box::new(Case { tname: "stsd", shape: format!("entry={} mode={}", ["avc1", "hev1", "vp09", "mp4a", "tx3g"][entry], v.mode), lib: l, node: n, payload_mask: m, decode_only: false }));
        });
    }
    for bits in 0..8u8 {
        add!("stbl", format!("ctts={} stss={} co64={}", bits & 1 != 0, bits & 2 != 0, bits & 4 != 0), |v: &mut V| g_stbl(bits & 1 != 0, bits & 2 != 0, bits & 4 != 0, v));
    }
    for bits in 0..4u8 {
        add!("minf", format!("vmhd={} smhd={}", bits & 1 != 0, bits & 2 != 0), |v: &mut V| g_minf(bits & 1 != 0, bits & 2 != 0, v));
    }
    add!("mdia", "".into(), |v: &mut V| g_mdia(v));
    for bits in 0..4u8 {
        add!("trak", format!("edts={} meta={}", bits & 1 != 0, bits & 2 != 0), |v: &mut V| g_trak(bits & 1 != 0, bits & 2 != 0, v));
    }
    for m in [None, Some(0u8), Some(1)] {
        add!("mvex", format!("mehd={:?}", m), |v: &mut V| g_mvex(m, v));
    }
    for bits in 0..8u8 {
        for nt in 0..=2usize {
            add!("moov", format!("traks={} meta={} mvex={} udta={}", nt, bits & 1 != 0, bits & 2 != 0, bits & 4 != 0), |v: &mut V| g_moov(nt, bits & 1 != 0, bits & 2 != 0, bits & 4 != 0, v));
        }
    }
    for present in 0..32u8 {
        add!("tfhd", format!("present={:05b}", present), |v: &mut V| g_tfhd(present, v));
    }
    for bits in 0..4u8 {
        add!("traf", format!("tfdt={} trun={}", bits & 1 != 0, bits & 2 != 0), |v: &mut V| g_traf(bits & 1 != 0, bits & 2 != 0, v));
    }
    for n in 0..=2usize {
        add!("moof", format!("trafs={}", n), |v: &mut V| g_moof(n, v));
    }
    // long strings with one multi-byte character at every alignment around 256 and 512 bytes
    for ver in [0u8, 1] {
        for lead in [253usize, 254, 255, 256, 509, 510, 511, 512] {
            for which in 0..2u8 {
                let shape = format!("v{} long_string lead={} in {}", ver, lead, if which == 0 { "scheme" } else { "value" });
                modes(|v| {
                    if v.mode > 2 {
                        return; // the string shape is the subject here: three value modes suffice
                    }
                    let (mut l, _) = g_emsg(ver, 1, v);
                    let s = format!("{}{}{}", "a".repeat(lead), ["\u{e9}", "\u{20ac}", "\u{1F600}"][v.mode], "b".repeat(5));
                    if which == 0 {
                        l.scheme_id_uri = s;
                    } else {
                        l.value = s;
                    }
                    let e = rb::Emsg { version: ver, flags: l.flags, timescale: l.timescale, presentation_time: l.presentation_time.unwrap_or(0), presentation_time_delta: l.presentation_time_delta.unwrap_or(0), event_duration: l.event_duration, id: l.id, scheme: l.scheme_id_uri.clone(), value: l.value.clone(), data: l.message_data.clone() };
                    out.push(case("emsg", format!("{} mode={}", shape, v.mode), l, rb::emsg(&e)));
                });
            }
        }
    }
    for (ty, len) in [(0u32, 4usize), (1, 0), (1, 7), (13, 300), (21, 2)] {
        add!("data", format!("type={} len={}", ty, len), |v: &mut V| g_data(ty, len, v));
    }
    // ilst with 0 or 1 item (several items are written in HashMap order: compared through decode only, see C05)
    for items in [vec![], vec![0usize], vec![1], vec![2], vec![3]] {
        add!("ilst", format!("items={:?}", items), |v: &mut V| g_ilst(&items, v));
    }
    for items in [vec![0usize, 1], vec![0, 1, 2, 3]] {
        let shape = format!("items={:?}", items);
        modes(|v| {
            let (l, n) = g_ilst(&items, v);
            out.push(Box::new(Case { tname: "ilst", shape: format!("{} mode={}", shape, v.mode), lib: l, node: n, payload_mask: None, decode_only: true }));
        });
    }
    for items in [vec![], vec![0usize], vec![3]] {
        add!("meta", format!("mdir items={:?}", items), |v: &mut V| g_meta_mdir(&items, v));
    }
    {
        let mut kind_lists: Vec<Vec<usize>> = vec![vec![]];
        for a in 0..META_CHILD_KINDS.len() {
            kind_lists.push(vec![a]);
            for b in 0..META_CHILD_KINDS.len() {
                kind_lists.push(vec![a, b]);
            }
        }
        for kl in kind_lists {
            let names: Vec<String> = kl.iter().map(|k| String::from_utf8_lossy(&META_CHILD_KINDS[*k]).to_string()).collect();
            add!("meta", format!("unknown handler, children {:?}", names), |v: &mut V| g_meta_unknown(&kl, v));
        }
    }
    for m in [false, true] {
        add!("udta", format!("meta={}", m), |v: &mut V| g_udta(m, v));
    }
    out
}

// ---------------------------------------------------------------------------------------------
// real boxes: bytes cut out of the canned (ffmpeg-produced) files, pushed through decode -> encode -> decode

fn fx<B>(bytes: &[u8]) -> Result<Option<bool>, String>
where
    B: Mp4Box + PartialEq + std::fmt::Debug + for<'w> WriteBox<&'w mut Vec<u8>> + for<'r> ReadBox<&'r mut Cursor<Vec<u8>>> + for<'r> ReadBox<&'r mut Trickle>,
{
    let dec = |b: &[u8]| {
        let mut cur = Cursor::new(b.to_vec());
        guard(|| {
            let h = BoxHeader::read(&mut cur)?;
            B::read_box(&mut cur, h.size).map(|v| (v, cur.position()))
        })
    };
    let (v1, pos) = match dec(bytes) {
        Ok(Ok(v)) => v,
        Ok(Err(e)) => return Err(format!("a box of a real file does not decode: {}", e)),
        Err(p) => return Err(format!("PANIC in decode {}", short_loc(&p))),
    };
    if pos != bytes.len() as u64 {
        return Err(format!("decode left the stream at {} of {}", pos, bytes.len()));
    }
    let mut out = vec![];
    match guard(|| v1.write_box(&mut out)) {
        Ok(Ok(n)) => {
            if n != out.len() as u64 || v1.box_size() != out.len() as u64 {
                return Err(format!("re-encode wrote {} bytes, returned {}, box_size {}", out.len(), n, v1.box_size()));
            }
        }
        Ok(Err(_)) => return Ok(None),
        Err(p) => return Err(format!("PANIC in re-encode {}", short_loc(&p))),
    }
    match dec(&out) {
        Ok(Ok((v2, _))) => Ok(Some(v2 == v1)),
        Ok(Err(e)) => Err(format!("re-encoded bytes do not decode: {}", e)),
        Err(p) => Err(format!("PANIC in second decode {}", short_loc(&p))),
    }
}

/// Some(result) when the library has a codec for this code.
pub fn real_box_fixpoint(cc: &[u8; 4], bytes: &[u8]) -> Option<Result<Option<bool>, String>> {
    Some(match cc {
        b"ftyp" => fx::<FtypBox>(bytes),
        b"moov" => fx::<MoovBox>(bytes),
        b"mvhd" => fx::<MvhdBox>(bytes),
        b"trak" => fx::<TrakBox>(bytes),
        b"tkhd" => fx::<TkhdBox>(bytes),
        b"edts" => fx::<EdtsBox>(bytes),
        b"elst" => fx::<ElstBox>(bytes),
        b"mdia" => fx::<MdiaBox>(bytes),
        b"mdhd" => fx::<MdhdBox>(bytes),
        b"hdlr" => fx::<HdlrBox>(bytes),
        b"minf" => fx::<MinfBox>(bytes),
        b"vmhd" => fx::<VmhdBox>(bytes),
        b"smhd" => fx::<SmhdBox>(bytes),
        b"dinf" => fx::<DinfBox>(bytes),
        b"stbl" => fx::<StblBox>(bytes),
        b"stsd" => fx::<StsdBox>(bytes),
        b"avc1" => fx::<Avc1Box>(bytes),
        b"mp4a" => fx::<Mp4aBox>(bytes),
        b"stts" => fx::<SttsBox>(bytes),
        b"ctts" => fx::<CttsBox>(bytes),
        b"stss" => fx::<StssBox>(bytes),
        b"stsc" => fx::<StscBox>(bytes),
        b"stsz" => fx::<StszBox>(bytes),
        b"stco" => fx::<StcoBox>(bytes),
        b"co64" => fx::<Co64Box>(bytes),
        b"udta" => fx::<UdtaBox>(bytes),
        b"mvex" => fx::<MvexBox>(bytes),
        b"mehd" => fx::<MehdBox>(bytes),
        b"trex" => fx::<TrexBox>(bytes),
        b"moof" => fx::<MoofBox>(bytes),
        b"mfhd" => fx::<MfhdBox>(bytes),
        b"traf" => fx::<TrafBox>(bytes),
        b"tfhd" => fx::<TfhdBox>(bytes),
        b"tfdt" => fx::<TfdtBox>(bytes),
        b"trun" => fx::<TrunBox>(bytes),
        _ => return None,
    })
}
