//! Reference *encoder* side: a box tree that can be transformed (C12) and serialised.  Some leaves
//! depend on where other boxes end up in the file (chunk offsets, fragment data offsets): they are
//! `Dyn` bodies evaluated against the anchor positions of a first serialisation pass.

use std::collections::HashMap;
use std::sync::Arc;

/// label -> (start of the box, start of its payload)
pub type Anchors = HashMap<String, (u64, u64)>;

#[derive(Clone)]
pub enum Body {
    Leaf(Vec<u8>),
    /// payload computed from anchor positions; its length must not depend on them
    Dyn(Arc<dyn Fn(&Anchors) -> Vec<u8> + Send + Sync>),
    /// `prefix` (e.g. version/flags, entry counts, sample-entry fields), children, `suffix` (spare bytes)
    Kids { prefix: Vec<u8>, kids: Vec<Node>, suffix: Vec<u8> },
}

#[derive(Clone)]
pub struct Node {
    pub cc: [u8; 4],
    /// use the 64-bit size header form
    pub large: bool,
    pub label: Option<String>,
    pub body: Body,
    /// spare bytes appended after the payload (inside the box)
    pub spare: Vec<u8>,
    /// size field written as 0 = "extends to the end of the file" (only meaningful on the last top-level box)
    pub open_ended: bool,
}

impl Node {
    pub fn leaf(cc: &[u8; 4], payload: Vec<u8>) -> Node {
        Node { cc: *cc, large: false, label: None, body: Body::Leaf(payload), spare: vec![], open_ended: false }
    }
    pub fn kids(cc: &[u8; 4], kids: Vec<Node>) -> Node {
        Node { cc: *cc, large: false, label: None, body: Body::Kids { prefix: vec![], kids, suffix: vec![] }, spare: vec![], open_ended: false }
    }
    pub fn kids_with_prefix(cc: &[u8; 4], prefix: Vec<u8>, kids: Vec<Node>) -> Node {
        Node { cc: *cc, large: false, label: None, body: Body::Kids { prefix, kids, suffix: vec![] }, spare: vec![], open_ended: false }
    }
    pub fn dynamic(cc: &[u8; 4], f: Arc<dyn Fn(&Anchors) -> Vec<u8> + Send + Sync>) -> Node {
        Node { cc: *cc, large: false, label: None, body: Body::Dyn(f), spare: vec![], open_ended: false }
    }
    pub fn labelled(mut self, l: &str) -> Node {
        self.label = Some(l.to_string());
        self
    }
    pub fn with_open_end(mut self, o: bool) -> Node {
        self.open_ended = o;
        self
    }
    pub fn with_large(mut self, l: bool) -> Node {
        self.large = l;
        self
    }
    pub fn children(&self) -> Option<&Vec<Node>> {
        match &self.body {
            Body::Kids { kids, .. } => Some(kids),
            _ => None,
        }
    }
    pub fn children_mut(&mut self) -> Option<&mut Vec<Node>> {
        match &mut self.body {
            Body::Kids { kids, .. } => Some(kids),
            _ => None,
        }
    }
    pub fn child(&self, cc: &[u8; 4]) -> Option<&Node> {
        self.children()?.iter().find(|k| k.cc == *cc)
    }
    pub fn child_mut(&mut self, cc: &[u8; 4]) -> Option<&mut Node> {
        self.children_mut()?.iter_mut().find(|k| k.cc == *cc)
    }
    pub fn name(&self) -> String {
        self.cc.iter().map(|&b| if (0x20..0x7f).contains(&b) { b as char } else { '?' }).collect()
    }
}

fn emit(n: &Node, anchors_in: &Anchors, out: &mut Vec<u8>, anchors_out: &mut Anchors, last_top_level: bool) {
    // "extends to the end of the file" is only expressible on the last top-level box; elsewhere the flag is ignored
    let open_ended = n.open_ended && last_top_level;
    let start = out.len() as u64;
    // an open-ended box keeps the compact header whatever `large` says
    let large = n.large && !open_ended;
    let hdr = if large { 16 } else { 8 };
    out.extend_from_slice(&[0; 8]);
    if large {
        out.extend_from_slice(&[0; 8]);
    }
    out[start as usize + 4..start as usize + 8].copy_from_slice(&n.cc);
    if let Some(l) = &n.label {
        anchors_out.insert(l.clone(), (start, start + hdr));
    }
    match &n.body {
        Body::Leaf(p) => out.extend_from_slice(p),
        Body::Dyn(f) => out.extend_from_slice(&f(anchors_in)),
        Body::Kids { prefix, kids, suffix } => {
            out.extend_from_slice(prefix);
            for k in kids {
                emit(k, anchors_in, out, anchors_out, false);
            }
            out.extend_from_slice(suffix);
        }
    }
    out.extend_from_slice(&n.spare);
    let size = out.len() as u64 - start;
    let s = start as usize;
    if open_ended {
        out[s..s + 4].copy_from_slice(&0u32.to_be_bytes());
    } else if large {
        out[s..s + 4].copy_from_slice(&1u32.to_be_bytes());
        out[s + 8..s + 16].copy_from_slice(&size.to_be_bytes());
    } else {
        assert!(size <= u32::MAX as u64, "reference encoder: compact header cannot hold {}", size);
        out[s..s + 4].copy_from_slice(&(size as u32).to_be_bytes());
    }
}

/// Serialise top-level nodes.  Two passes: the first fixes every position, the second evaluates the
/// position-dependent leaves.  (Lengths do not depend on anchors, so positions are stable.)
pub fn serialize(nodes: &[Node]) -> (Vec<u8>, Anchors) {
    let mut a0 = Anchors::new();
    let mut out = vec![];
    for (i, n) in nodes.iter().enumerate() {
        emit(n, &Anchors::new(), &mut out, &mut a0, i + 1 == nodes.len());
    }
    let mut a1 = Anchors::new();
    let mut out2 = Vec::with_capacity(out.len());
    for (i, n) in nodes.iter().enumerate() {
        emit(n, &a0, &mut out2, &mut a1, i + 1 == nodes.len());
    }
    assert_eq!(out.len(), out2.len(), "reference encoder: a position-dependent leaf changed its length");
    (out2, a1)
}

/// Little byte writer.
#[derive(Default, Clone)]
pub struct W(pub Vec<u8>);

impl W {
    pub fn new() -> W {
        W(vec![])
    }
    pub fn u8(mut self, v: u8) -> W {
        self.0.push(v);
        self
    }
    pub fn u16(mut self, v: u16) -> W {
        self.0.extend_from_slice(&v.to_be_bytes());
        self
    }
    pub fn u24(mut self, v: u32) -> W {
        self.0.extend_from_slice(&v.to_be_bytes()[1..]);
        self
    }
    pub fn u32(mut self, v: u32) -> W {
        self.0.extend_from_slice(&v.to_be_bytes());
        self
    }
    pub fn i32(mut self, v: i32) -> W {
        self.0.extend_from_slice(&v.to_be_bytes());
        self
    }
    pub fn i16(mut self, v: i16) -> W {
        self.0.extend_from_slice(&v.to_be_bytes());
        self
    }
    pub fn u64(mut self, v: u64) -> W {
        self.0.extend_from_slice(&v.to_be_bytes());
        self
    }
    pub fn bytes(mut self, b: &[u8]) -> W {
        self.0.extend_from_slice(b);
        self
    }
    pub fn zeros(mut self, n: usize) -> W {
        self.0.extend(std::iter::repeat(0).take(n));
        self
    }
    pub fn full(self, version: u8, flags: u32) -> W {
        self.u8(version).u24(flags)
    }
    pub fn cstr(mut self, s: &str) -> W {
        self.0.extend_from_slice(s.as_bytes());
        self.0.push(0);
        self
    }
    pub fn done(self) -> Vec<u8> {
        self.0
    }
}

impl std::fmt::Debug for Node {
    fn fmt(&self, f: &mut std::fmt::Formatter) -> std::fmt::Result {
        write!(f, "Node({}{})", self.name(), if self.large { ",large" } else { "" })
    }
}
