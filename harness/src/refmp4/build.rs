//! Reference encoders for every box the library supports, written from the layouts in REFSPEC.md
//! (ISO/IEC 14496-12/-14/-15, 14496-1 descriptors, VP-codec binding, 3GPP TS 26.245, QuickTime metadata).

use super::tree::*;
use std::sync::Arc;

pub const UNITY: [i32; 9] = [0x10000, 0, 0, 0, 0x10000, 0, 0, 0, 0x40000000];

// ---------------------------------------------------------------------------------------------
// file level

pub fn ftyp(major: [u8; 4], minor: u32, compat: &[[u8; 4]]) -> Node {
    let mut w = W::new().bytes(&major).u32(minor);
    for c in compat {
        w = w.bytes(c);
    }
    Node::leaf(b"ftyp", w.done())
}

pub fn free(n: usize) -> Node {
    Node::leaf(b"free", vec![0x5a; n])
}

pub fn unknown(cc: &[u8; 4], n: usize) -> Node {
    Node::leaf(cc, (0..n).map(|i| (i * 31 + 7) as u8).collect())
}

pub fn mdat(payload: Vec<u8>) -> Node {
    Node::leaf(b"mdat", payload).labelled("mdat")
}

#[derive(Clone, Debug, PartialEq, Eq)]
pub struct Emsg {
    pub version: u8,
    pub flags: u32,
    pub timescale: u32,
    pub presentation_time: u64,       // v1
    pub presentation_time_delta: u32, // v0
    pub event_duration: u32,
    pub id: u32,
    pub scheme: String,
    pub value: String,
    pub data: Vec<u8>,
}

pub fn emsg(e: &Emsg) -> Node {
    let w = W::new().full(e.version, e.flags);
    let w = if e.version == 0 {
        w.cstr(&e.scheme).cstr(&e.value).u32(e.timescale).u32(e.presentation_time_delta).u32(e.event_duration).u32(e.id)
    } else {
        w.u32(e.timescale).u64(e.presentation_time).u32(e.event_duration).u32(e.id).cstr(&e.scheme).cstr(&e.value)
    };
    Node::leaf(b"emsg", w.bytes(&e.data).done())
}

// ---------------------------------------------------------------------------------------------
// movie / track headers

#[derive(Clone, Debug, PartialEq, Eq)]
pub struct Mvhd {
    pub version: u8,
    pub flags: u32,
    pub creation: u64,
    pub modification: u64,
    pub timescale: u32,
    pub duration: u64,
    pub rate: u32,
    pub volume: u16,
    pub matrix: [i32; 9],
    pub next_track_id: u32,
}

impl Mvhd {
    pub fn new(timescale: u32, duration: u64, next: u32) -> Mvhd {
        Mvhd { version: if duration > u32::MAX as u64 { 1 } else { 0 }, flags: 0, creation: 0, modification: 0, timescale, duration, rate: 0x10000, volume: 0x100, matrix: UNITY, next_track_id: next }
    }
}

fn times(w: W, version: u8, c: u64, m: u64) -> W {
    if version == 1 {
        w.u64(c).u64(m)
    } else {
        w.u32(c as u32).u32(m as u32)
    }
}

pub fn mvhd(m: &Mvhd) -> Node {
    let mut w = times(W::new().full(m.version, m.flags), m.version, m.creation, m.modification).u32(m.timescale);
    w = if m.version == 1 { w.u64(m.duration) } else { w.u32(m.duration as u32) };
    w = w.u32(m.rate).u16(m.volume).u16(0).u32(0).u32(0);
    for x in m.matrix {
        w = w.i32(x);
    }
    w = w.zeros(24).u32(m.next_track_id);
    Node::leaf(b"mvhd", w.done())
}

#[derive(Clone, Debug, PartialEq, Eq)]
pub struct Tkhd {
    pub version: u8,
    pub flags: u32,
    pub creation: u64,
    pub modification: u64,
    pub track_id: u32,
    pub duration: u64,
    pub layer: u16,
    pub alternate_group: u16,
    pub volume: u16,
    pub matrix: [i32; 9],
    pub width: u32,
    pub height: u32,
}

impl Tkhd {
    pub fn new(id: u32, duration: u64, w: u16, h: u16) -> Tkhd {
        Tkhd { version: if duration > u32::MAX as u64 { 1 } else { 0 }, flags: 3, creation: 0, modification: 0, track_id: id, duration, layer: 0, alternate_group: 0, volume: 0x100, matrix: UNITY, width: (w as u32) << 16, height: (h as u32) << 16 }
    }
}

pub fn tkhd(t: &Tkhd) -> Node {
    let mut w = times(W::new().full(t.version, t.flags), t.version, t.creation, t.modification).u32(t.track_id).u32(0);
    w = if t.version == 1 { w.u64(t.duration) } else { w.u32(t.duration as u32) };
    w = w.u32(0).u32(0).u16(t.layer).u16(t.alternate_group).u16(t.volume).u16(0);
    for x in t.matrix {
        w = w.i32(x);
    }
    w = w.u32(t.width).u32(t.height);
    Node::leaf(b"tkhd", w.done())
}

#[derive(Clone, Debug, PartialEq, Eq)]
pub struct Mdhd {
    pub version: u8,
    pub flags: u32,
    pub creation: u64,
    pub modification: u64,
    pub timescale: u32,
    pub duration: u64,
    pub language: [u8; 3],
}

impl Mdhd {
    pub fn new(timescale: u32, duration: u64) -> Mdhd {
        Mdhd { version: if duration > u32::MAX as u64 { 1 } else { 0 }, flags: 0, creation: 0, modification: 0, timescale, duration, language: *b"und" }
    }
}

pub fn lang_code(l: [u8; 3]) -> u16 {
    (((l[0] - 0x60) as u16) << 10) | (((l[1] - 0x60) as u16) << 5) | (l[2] - 0x60) as u16
}

pub fn mdhd(m: &Mdhd) -> Node {
    let mut w = times(W::new().full(m.version, m.flags), m.version, m.creation, m.modification).u32(m.timescale);
    w = if m.version == 1 { w.u64(m.duration) } else { w.u32(m.duration as u32) };
    w = w.u16(lang_code(m.language)).u16(0);
    Node::leaf(b"mdhd", w.done())
}

pub fn hdlr(version: u8, flags: u32, handler: &[u8; 4], name: &str) -> Node {
    Node::leaf(b"hdlr", W::new().full(version, flags).u32(0).bytes(handler).zeros(12).cstr(name).done())
}

pub fn vmhd(flags: u32, graphicsmode: u16, op: [u16; 3]) -> Node {
    Node::leaf(b"vmhd", W::new().full(0, flags).u16(graphicsmode).u16(op[0]).u16(op[1]).u16(op[2]).done())
}

pub fn smhd(balance: i16) -> Node {
    Node::leaf(b"smhd", W::new().full(0, 0).i16(balance).u16(0).done())
}

/// `url ` with flags: 1 = media in the same file (no string).
pub fn url(flags: u32, location: Option<&str>) -> Node {
    let mut w = W::new().full(0, flags);
    if let Some(l) = location {
        w = w.cstr(l);
    }
    Node::leaf(b"url ", w.done())
}

pub fn dref(entries: Vec<Node>) -> Node {
    let n = entries.len() as u32;
    Node::kids_with_prefix(b"dref", W::new().full(0, 0).u32(n).done(), entries)
}

pub fn dinf() -> Node {
    Node::kids(b"dinf", vec![dref(vec![url(1, None)])])
}

#[derive(Clone, Debug, PartialEq, Eq)]
pub struct ElstEntry {
    pub segment_duration: u64,
    pub media_time: u64,
    pub rate_int: u16,
    pub rate_frac: u16,
}

pub fn elst(version: u8, flags: u32, e: &[ElstEntry]) -> Node {
    let mut w = W::new().full(version, flags).u32(e.len() as u32);
    for x in e {
        w = if version == 1 { w.u64(x.segment_duration).u64(x.media_time) } else { w.u32(x.segment_duration as u32).u32(x.media_time as u32) };
        w = w.u16(x.rate_int).u16(x.rate_frac);
    }
    Node::leaf(b"elst", w.done())
}

pub fn edts(elst_box: Option<Node>) -> Node {
    Node::kids(b"edts", elst_box.into_iter().collect())
}

// ---------------------------------------------------------------------------------------------
// sample tables

pub fn stts(runs: &[(u32, u32)]) -> Node {
    let mut w = W::new().full(0, 0).u32(runs.len() as u32);
    for (c, d) in runs {
        w = w.u32(*c).u32(*d);
    }
    Node::leaf(b"stts", w.done())
}

pub fn ctts(version: u8, runs: &[(u32, i32)]) -> Node {
    let mut w = W::new().full(version, 0).u32(runs.len() as u32);
    for (c, o) in runs {
        w = w.u32(*c).i32(*o);
    }
    Node::leaf(b"ctts", w.done())
}

pub fn stss(e: &[u32]) -> Node {
    let mut w = W::new().full(0, 0).u32(e.len() as u32);
    for x in e {
        w = w.u32(*x);
    }
    Node::leaf(b"stss", w.done())
}

pub fn stsc(e: &[(u32, u32, u32)]) -> Node {
    let mut w = W::new().full(0, 0).u32(e.len() as u32);
    for (a, b, c) in e {
        w = w.u32(*a).u32(*b).u32(*c);
    }
    Node::leaf(b"stsc", w.done())
}

pub fn stsz(sample_size: u32, count: u32, sizes: &[u32]) -> Node {
    let mut w = W::new().full(0, 0).u32(sample_size).u32(count);
    if sample_size == 0 {
        for s in sizes {
            w = w.u32(*s);
        }
    }
    Node::leaf(b"stsz", w.done())
}

pub fn stco_abs(offsets: &[u32]) -> Node {
    let mut w = W::new().full(0, 0).u32(offsets.len() as u32);
    for o in offsets {
        w = w.u32(*o);
    }
    Node::leaf(b"stco", w.done())
}

pub fn co64_abs(offsets: &[u64]) -> Node {
    let mut w = W::new().full(0, 0).u32(offsets.len() as u32);
    for o in offsets {
        w = w.u64(*o);
    }
    Node::leaf(b"co64", w.done())
}

/// Chunk offsets relative to the payload of the box labelled `anchor` (normally "mdat").
pub fn chunk_offsets(co64: bool, anchor: &str, rel: Vec<u64>) -> Node {
    let anchor = anchor.to_string();
    let f = move |a: &Anchors| {
        let base = a.get(&anchor).map(|x| x.1).unwrap_or(0);
        let mut w = W::new().full(0, 0).u32(rel.len() as u32);
        for r in rel.iter() {
            w = if co64 { w.u64(base + r) } else { w.u32((base + r) as u32) };
        }
        w.done()
    };
    Node::dynamic(if co64 { b"co64" } else { b"stco" }, Arc::new(f))
}

// ---------------------------------------------------------------------------------------------
// sample entries

#[derive(Clone, Debug, PartialEq, Eq)]
pub struct Visual {
    pub data_reference_index: u16,
    pub width: u16,
    pub height: u16,
    pub hres: u32,
    pub vres: u32,
    pub frame_count: u16,
    pub compressor: [u8; 32],
    pub depth: u16,
}

impl Visual {
    pub fn new(w: u16, h: u16) -> Visual {
        Visual { data_reference_index: 1, width: w, height: h, hres: 0x480000, vres: 0x480000, frame_count: 1, compressor: [0; 32], depth: 0x18 }
    }
}

fn visual_prefix(v: &Visual) -> Vec<u8> {
    W::new().zeros(6).u16(v.data_reference_index).u16(0).u16(0).zeros(12).u16(v.width).u16(v.height).u32(v.hres).u32(v.vres).u32(0).u16(v.frame_count).bytes(&v.compressor).u16(v.depth).i16(-1).done()
}

#[derive(Clone, Debug, PartialEq, Eq)]
pub struct AvcC {
    pub configuration_version: u8,
    pub profile: u8,
    pub compat: u8,
    pub level: u8,
    pub length_size_minus_one: u8,
    pub sps: Vec<Vec<u8>>,
    pub pps: Vec<Vec<u8>>,
}

pub fn avcc(a: &AvcC) -> Node {
    let mut w = W::new().u8(a.configuration_version).u8(a.profile).u8(a.compat).u8(a.level).u8(0xfc | (a.length_size_minus_one & 3)).u8(0xe0 | (a.sps.len() as u8 & 0x1f));
    for s in a.sps.iter() {
        w = w.u16(s.len() as u16).bytes(s);
    }
    w = w.u8(a.pps.len() as u8);
    for s in a.pps.iter() {
        w = w.u16(s.len() as u16).bytes(s);
    }
    Node::leaf(b"avcC", w.done())
}

pub fn avc1(v: &Visual, a: &AvcC) -> Node {
    Node::kids_with_prefix(b"avc1", visual_prefix(v), vec![avcc(a)])
}

#[derive(Clone, Debug, PartialEq, Eq, Default)]
pub struct HvcC {
    pub configuration_version: u8,
    pub profile_space: u8,
    pub tier_flag: bool,
    pub profile_idc: u8,
    pub compat_flags: u32,
    pub constraint_flags: u64, // 48 bits
    pub level_idc: u8,
    pub min_spatial_segmentation_idc: u16, // 12 bits
    pub parallelism_type: u8,
    pub chroma_format: u8,
    pub bit_depth_luma_minus8: u8,
    pub bit_depth_chroma_minus8: u8,
    pub avg_frame_rate: u16,
    pub constant_frame_rate: u8,
    pub num_temporal_layers: u8,
    pub temporal_id_nested: bool,
    pub length_size_minus_one: u8,
    /// (array_completeness, nal_unit_type, nalus)
    pub arrays: Vec<(bool, u8, Vec<Vec<u8>>)>,
}

pub fn hvcc(h: &HvcC) -> Node {
    let mut w = W::new()
        .u8(h.configuration_version)
        .u8(((h.profile_space & 3) << 6) | ((h.tier_flag as u8) << 5) | (h.profile_idc & 0x1f))
        .u32(h.compat_flags)
        .bytes(&h.constraint_flags.to_be_bytes()[2..])
        .u8(h.level_idc)
        .u16(0xf000 | (h.min_spatial_segmentation_idc & 0x0fff))
        .u8(0xfc | (h.parallelism_type & 3))
        .u8(0xfc | (h.chroma_format & 3))
        .u8(0xf8 | (h.bit_depth_luma_minus8 & 7))
        .u8(0xf8 | (h.bit_depth_chroma_minus8 & 7))
        .u16(h.avg_frame_rate)
        .u8(((h.constant_frame_rate & 3) << 6) | ((h.num_temporal_layers & 7) << 3) | ((h.temporal_id_nested as u8) << 2) | (h.length_size_minus_one & 3))
        .u8(h.arrays.len() as u8);
    for (complete, t, nalus) in h.arrays.iter() {
        w = w.u8(((*complete as u8) << 7) | (t & 0x3f)).u16(nalus.len() as u16);
        for n in nalus {
            w = w.u16(n.len() as u16).bytes(n);
        }
    }
    Node::leaf(b"hvcC", w.done())
}

/// Mask of reserved bits in an hvcC payload of the shape above (1 = reserved position), for C05's masked compare.
pub fn hvcc_reserved_mask(len: usize, arrays: &[(bool, u8, Vec<Vec<u8>>)]) -> Vec<u8> {
    let mut m = vec![0u8; len];
    if len >= 23 {
        m[13] = 0xf0;
        m[15] = 0xfc;
        m[16] = 0xfc;
        m[17] = 0xf8;
        m[18] = 0xf8;
        let mut p = 23;
        for (_, _, nalus) in arrays {
            if p < len {
                m[p] = 0x40;
            }
            p += 3;
            for n in nalus {
                p += 2 + n.len();
            }
        }
    }
    m
}

pub fn hev1(v: &Visual, h: &HvcC) -> Node {
    Node::kids_with_prefix(b"hev1", visual_prefix(v), vec![hvcc(h)])
}

#[derive(Clone, Debug, PartialEq, Eq, Default)]
pub struct VpcC {
    pub version: u8,
    pub flags: u32,
    pub profile: u8,
    pub level: u8,
    pub bit_depth: u8,
    pub chroma_subsampling: u8,
    pub full_range: bool,
    pub colour_primaries: u8,
    pub transfer: u8,
    pub matrix: u8,
    pub init_data: Vec<u8>,
}

pub fn vpcc(v: &VpcC) -> Node {
    let w = W::new()
        .full(v.version, v.flags)
        .u8(v.profile)
        .u8(v.level)
        .u8(((v.bit_depth & 0xf) << 4) | ((v.chroma_subsampling & 7) << 1) | v.full_range as u8)
        .u8(v.colour_primaries)
        .u8(v.transfer)
        .u8(v.matrix)
        .u16(v.init_data.len() as u16)
        .bytes(&v.init_data);
    Node::leaf(b"vpcC", w.done())
}

pub fn vp09(v: &Visual, c: &VpcC) -> Node {
    Node::kids_with_prefix(b"vp09", visual_prefix(v), vec![vpcc(c)])
}

#[derive(Clone, Debug, PartialEq, Eq)]
pub struct Audio {
    pub data_reference_index: u16,
    pub channelcount: u16,
    pub samplesize: u16,
    pub samplerate: u32, // 16.16
    /// QuickTime sound sample description version (0, or 1 = 16 extra bytes)
    pub qt_version: u16,
}

#[derive(Clone, Debug, PartialEq, Eq)]
pub struct Esds {
    pub version: u8,
    pub flags: u32,
    pub es_id: u16,
    pub object_type_indication: u8,
    pub stream_type: u8,
    pub up_stream: bool,
    pub buffer_size_db: u32,
    pub max_bitrate: u32,
    pub avg_bitrate: u32,
    pub audio_object_type: u8,
    pub freq_index: u8,
    /// explicit frequency when freq_index == 15
    pub frequency: u32,
    pub chan_conf: u8,
    /// bytes used for every descriptor length (1..=4): 1 = compact, more = 0x80-padded
    pub len_bytes: usize,
}

/// AudioSpecificConfig bits (14496-3 1.6.2.1): 5 bits type (31 -> 6-bit escape), 4 bits frequency index
/// (15 -> 24-bit frequency), 4 bits channel configuration; zero padded to a byte boundary.
pub fn audio_specific_config(aot: u8, freq_index: u8, frequency: u32, chan: u8) -> Vec<u8> {
    let mut bits: Vec<bool> = vec![];
    let mut put = |v: u32, n: usize| {
        for i in (0..n).rev() {
            bits.push((v >> i) & 1 == 1);
        }
    };
    if aot >= 32 {
        put(31, 5);
        put((aot - 32) as u32, 6);
    } else {
        put(aot as u32, 5);
    }
    put(freq_index as u32, 4);
    if freq_index == 15 {
        put(frequency, 24);
    }
    put(chan as u32, 4);
    while bits.len() % 8 != 0 {
        bits.push(false);
    }
    bits.chunks(8).map(|c| c.iter().fold(0u8, |a, b| (a << 1) | *b as u8)).collect()
}

pub fn desc(tag: u8, body: &[u8], len_bytes: usize) -> Vec<u8> {
    let mut out = vec![tag];
    let n = body.len() as u32;
    let need = if n < 0x80 { 1 } else if n < 0x4000 { 2 } else if n < 0x200000 { 3 } else { 4 };
    let nb = len_bytes.max(need);
    for i in (0..nb).rev() {
        let mut b = ((n >> (7 * i)) & 0x7f) as u8;
        if i != 0 {
            b |= 0x80;
        }
        out.push(b);
    }
    out.extend_from_slice(body);
    out
}

pub fn esds(e: &Esds) -> Node {
    let asc = audio_specific_config(e.audio_object_type, e.freq_index, e.frequency, e.chan_conf);
    let dsi = desc(0x05, &asc, e.len_bytes);
    let dcd_body = W::new().u8(e.object_type_indication).u8((e.stream_type << 2) | ((e.up_stream as u8) << 1) | 1).u24(e.buffer_size_db).u32(e.max_bitrate).u32(e.avg_bitrate).bytes(&dsi).done();
    let dcd = desc(0x04, &dcd_body, e.len_bytes);
    let sl = desc(0x06, &[2], e.len_bytes);
    let es_body = W::new().u16(e.es_id).u8(0).bytes(&dcd).bytes(&sl).done();
    let es = desc(0x03, &es_body, e.len_bytes);
    Node::leaf(b"esds", W::new().full(e.version, e.flags).bytes(&es).done())
}

fn audio_prefix(a: &Audio) -> Vec<u8> {
    let mut w = W::new().zeros(6).u16(a.data_reference_index).u16(a.qt_version).u16(0).u32(0).u16(a.channelcount).u16(a.samplesize).u16(0).u16(0).u32(a.samplerate);
    if a.qt_version == 1 {
        w = w.u32(1024).u32(2).u32(2).u32(2);
    }
    w.done()
}

pub fn mp4a(a: &Audio, e: Option<&Esds>) -> Node {
    Node::kids_with_prefix(b"mp4a", audio_prefix(a), e.map(esds).into_iter().collect())
}

/// QuickTime style: esds inside a `wave` wrapper (with a `frma` sibling in front).
pub fn mp4a_wave(a: &Audio, e: &Esds) -> Node {
    let wave = Node::kids(b"wave", vec![Node::leaf(b"frma", b"mp4a".to_vec()), esds(e), Node::leaf(&[0, 0, 0, 0], vec![])]);
    Node::kids_with_prefix(b"mp4a", audio_prefix(a), vec![wave])
}

#[derive(Clone, Debug, PartialEq, Eq)]
pub struct Tx3g {
    pub data_reference_index: u16,
    pub display_flags: u32,
    pub h_just: i8,
    pub v_just: i8,
    pub bg: [u8; 4],
    pub box_record: [i16; 4],
    pub style: [u8; 12],
}

pub fn tx3g(t: &Tx3g) -> Node {
    let mut w = W::new().zeros(6).u16(t.data_reference_index).u32(t.display_flags).u8(t.h_just as u8).u8(t.v_just as u8).bytes(&t.bg);
    for b in t.box_record {
        w = w.i16(b);
    }
    Node::leaf(b"tx3g", w.bytes(&t.style).done())
}

pub fn stsd(entry: Node) -> Node {
    Node::kids_with_prefix(b"stsd", W::new().full(0, 0).u32(1).done(), vec![entry])
}

// ---------------------------------------------------------------------------------------------
// fragments

pub fn mehd(version: u8, d: u64) -> Node {
    let w = W::new().full(version, 0);
    Node::leaf(b"mehd", if version == 1 { w.u64(d) } else { w.u32(d as u32) }.done())
}

pub fn trex(track: u32, sdi: u32, dur: u32, size: u32, flags: u32) -> Node {
    Node::leaf(b"trex", W::new().full(0, 0).u32(track).u32(sdi).u32(dur).u32(size).u32(flags).done())
}

pub fn mfhd(seq: u32) -> Node {
    Node::leaf(b"mfhd", W::new().full(0, 0).u32(seq).done())
}

#[derive(Clone, Debug, PartialEq, Eq, Default)]
pub struct Tfhd {
    pub version: u8,
    /// extra flag bits (0x010000 duration-is-empty, 0x020000 default-base-is-moof); presence bits are derived
    pub extra_flags: u32,
    pub track_id: u32,
    pub base_data_offset: Option<u64>,
    pub sample_description_index: Option<u32>,
    pub default_sample_duration: Option<u32>,
    pub default_sample_size: Option<u32>,
    pub default_sample_flags: Option<u32>,
}

impl Tfhd {
    pub fn flags(&self) -> u32 {
        self.extra_flags
            | if self.base_data_offset.is_some() { 1 } else { 0 }
            | if self.sample_description_index.is_some() { 2 } else { 0 }
            | if self.default_sample_duration.is_some() { 8 } else { 0 }
            | if self.default_sample_size.is_some() { 0x10 } else { 0 }
            | if self.default_sample_flags.is_some() { 0x20 } else { 0 }
    }
    pub fn payload(&self) -> Vec<u8> {
        let mut w = W::new().full(self.version, self.flags()).u32(self.track_id);
        if let Some(x) = self.base_data_offset {
            w = w.u64(x);
        }
        for x in [self.sample_description_index, self.default_sample_duration, self.default_sample_size, self.default_sample_flags].iter().flatten() {
            w = w.u32(*x);
        }
        w.done()
    }
}

pub fn tfhd(t: &Tfhd) -> Node {
    Node::leaf(b"tfhd", t.payload())
}

pub fn tfdt(version: u8, t: u64) -> Node {
    let w = W::new().full(version, 0);
    Node::leaf(b"tfdt", if version == 1 { w.u64(t) } else { w.u32(t as u32) }.done())
}

#[derive(Clone, Debug, PartialEq, Eq, Default)]
pub struct Trun {
    pub version: u8,
    pub sample_count: u32,
    pub data_offset: Option<i32>,
    pub first_sample_flags: Option<u32>,
    pub durations: Option<Vec<u32>>,
    pub sizes: Option<Vec<u32>>,
    pub flags_: Option<Vec<u32>>,
    pub cts: Option<Vec<i32>>,
}

impl Trun {
    pub fn flags(&self) -> u32 {
        (if self.data_offset.is_some() { 1 } else { 0 })
            | if self.first_sample_flags.is_some() { 4 } else { 0 }
            | if self.durations.is_some() { 0x100 } else { 0 }
            | if self.sizes.is_some() { 0x200 } else { 0 }
            | if self.flags_.is_some() { 0x400 } else { 0 }
            | if self.cts.is_some() { 0x800 } else { 0 }
    }
    pub fn payload(&self) -> Vec<u8> {
        let mut w = W::new().full(self.version, self.flags()).u32(self.sample_count);
        if let Some(x) = self.data_offset {
            w = w.i32(x);
        }
        if let Some(x) = self.first_sample_flags {
            w = w.u32(x);
        }
        for i in 0..self.sample_count as usize {
            if let Some(v) = &self.durations {
                w = w.u32(v[i]);
            }
            if let Some(v) = &self.sizes {
                w = w.u32(v[i]);
            }
            if let Some(v) = &self.flags_ {
                w = w.u32(v[i]);
            }
            if let Some(v) = &self.cts {
                w = w.i32(v[i]);
            }
        }
        w.done()
    }
}

pub fn trun(t: &Trun) -> Node {
    Node::leaf(b"trun", t.payload())
}

// ---------------------------------------------------------------------------------------------
// user data / iTunes metadata

pub fn data_box(type_code: u32, value: &[u8]) -> Node {
    Node::leaf(b"data", W::new().u32(type_code).u32(0).bytes(value).done())
}

pub fn ilst_item(cc: &[u8; 4], type_code: u32, value: &[u8]) -> Node {
    Node::kids(cc, vec![data_box(type_code, value)])
}

pub fn ilst(items: Vec<Node>) -> Node {
    Node::kids(b"ilst", items)
}

/// `meta`: FullBox form (version word) or QuickTime form (no version word; hdlr must come first).
pub fn meta(full: bool, kids: Vec<Node>) -> Node {
    Node::kids_with_prefix(b"meta", if full { vec![0, 0, 0, 0] } else { vec![] }, kids)
}

pub fn udta(kids: Vec<Node>) -> Node {
    Node::kids(b"udta", kids)
}
