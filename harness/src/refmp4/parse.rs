//! Independent, strict ISO-BMFF parser (shares no code with the library): generic box tree, the
//! sample-table boxes, and the header boxes needed by the validator.

pub trait Src {
    fn len(&self) -> u64;
    /// Fill `buf` from absolute position `pos`; false when out of range.
    fn read_at(&self, pos: u64, buf: &mut [u8]) -> bool;
}

impl Src for Vec<u8> {
    fn len(&self) -> u64 {
        <[u8]>::len(self) as u64
    }
    fn read_at(&self, pos: u64, buf: &mut [u8]) -> bool {
        let n = <[u8]>::len(self) as u64;
        if pos > n || buf.len() as u64 > n - pos {
            return false;
        }
        buf.copy_from_slice(&self[pos as usize..pos as usize + buf.len()]);
        true
    }
}

impl Src for &[u8] {
    fn len(&self) -> u64 {
        <[u8]>::len(self) as u64
    }
    fn read_at(&self, pos: u64, buf: &mut [u8]) -> bool {
        let n = <[u8]>::len(self) as u64;
        if pos > n || buf.len() as u64 > n - pos {
            return false;
        }
        buf.copy_from_slice(&self[pos as usize..pos as usize + buf.len()]);
        true
    }
}

#[derive(Clone, Debug)]
pub struct Top {
    pub cc: [u8; 4],
    pub start: u64,
    pub header: u64,
    pub size: u64,
    pub large: bool,
}

/// Top-level boxes; they must tile [start, len) exactly.
pub fn top_level(src: &dyn Src, start: u64) -> Result<Vec<Top>, String> {
    let mut v = vec![];
    let mut p = start;
    let n = src.len();
    while p < n {
        let mut h = [0u8; 8];
        if !src.read_at(p, &mut h) {
            return Err(format!("top-level box header at {} runs past the end of the file ({})", p, n));
        }
        let s32 = u32::from_be_bytes([h[0], h[1], h[2], h[3]]) as u64;
        let cc = [h[4], h[5], h[6], h[7]];
        let (size, header, large) = if s32 == 1 {
            let mut l = [0u8; 8];
            if !src.read_at(p + 8, &mut l) {
                return Err(format!("largesize of box at {} runs past the end", p));
            }
            (u64::from_be_bytes(l), 16, true)
        } else if s32 == 0 {
            (n - p, 8, false)
        } else {
            (s32, 8, false)
        };
        if size < header {
            return Err(format!("top-level box {:?} at {} declares size {} smaller than its header", String::from_utf8_lossy(&cc), p, size));
        }
        if p + size > n {
            return Err(format!("top-level box {:?} at {} (size {}) extends past the end of the file ({})", String::from_utf8_lossy(&cc), p, size, n));
        }
        v.push(Top { cc, start: p, header, size, large });
        p += size;
    }
    Ok(v)
}

#[derive(Clone, Debug)]
pub struct Node {
    pub cc: [u8; 4],
    /// absolute position of the box in the file
    pub start: u64,
    pub header: usize,
    pub size: usize,
    pub payload: Vec<u8>,
    pub kids: Vec<Node>,
}

pub const CONTAINERS: [&[u8; 4]; 11] = [b"moov", b"trak", b"mdia", b"minf", b"stbl", b"dinf", b"edts", b"mvex", b"moof", b"traf", b"udta"];

/// Containers whose children follow a fixed-size prefix (version/flags/counts or sample-entry fields).
pub const PREFIXED: [(&[u8; 4], usize); 7] = [(b"stsd", 8), (b"dref", 8), (b"avc1", 78), (b"hev1", 78), (b"vp09", 78), (b"mp4a", 28), (b"meta", 4)];

/// Parse `data` (the bytes of consecutive boxes located at absolute position `base`) into a tree.
/// Containers must be tiled exactly by their children.
pub fn tree(data: &[u8], base: u64) -> Result<Vec<Node>, String> {
    let mut v = vec![];
    let mut p = 0usize;
    while p < data.len() {
        if data.len() - p < 8 {
            return Err(format!("{} stray bytes at {} (not enough for a box header)", data.len() - p, base + p as u64));
        }
        let s32 = u32::from_be_bytes([data[p], data[p + 1], data[p + 2], data[p + 3]]) as usize;
        let cc = [data[p + 4], data[p + 5], data[p + 6], data[p + 7]];
        let (size, header) = if s32 == 1 {
            if data.len() - p < 16 {
                return Err(format!("largesize at {} truncated", base + p as u64));
            }
            let l = u64::from_be_bytes([data[p + 8], data[p + 9], data[p + 10], data[p + 11], data[p + 12], data[p + 13], data[p + 14], data[p + 15]]);
            (l as usize, 16)
        } else {
            (s32, 8)
        };
        if size < header || size > data.len() - p {
            return Err(format!("box {:?} at {} declares size {} but {} bytes remain in its parent", String::from_utf8_lossy(&cc), base + p as u64, size, data.len() - p));
        }
        let payload = &data[p + header..p + size];
        let kids = if CONTAINERS.iter().any(|c| **c == cc) {
            tree(payload, base + (p + header) as u64).map_err(|e| format!("in {:?}: {}", String::from_utf8_lossy(&cc), e))?
        } else if let Some((_, pre)) = PREFIXED.iter().find(|(c, _)| **c == cc) {
            if payload.len() < *pre {
                return Err(format!("box {:?} at {} is shorter than its fixed fields ({} < {})", String::from_utf8_lossy(&cc), base + p as u64, payload.len(), pre));
            }
            tree(&payload[*pre..], base + (p + header + pre) as u64).map_err(|e| format!("in {:?}: {}", String::from_utf8_lossy(&cc), e))?
        } else {
            vec![]
        };
        v.push(Node { cc, start: base + p as u64, header, size, payload: payload.to_vec(), kids });
        p += size;
    }
    Ok(v)
}

impl Node {
    pub fn kid(&self, cc: &[u8; 4]) -> Option<&Node> {
        self.kids.iter().find(|k| k.cc == *cc)
    }
    pub fn kids_named(&self, cc: &[u8; 4]) -> Vec<&Node> {
        self.kids.iter().filter(|k| k.cc == *cc).collect()
    }
    pub fn path(&self, p: &[&[u8; 4]]) -> Option<&Node> {
        let mut n = self;
        for c in p {
            n = n.kid(c)?;
        }
        Some(n)
    }
}

pub struct Rd<'a> {
    pub d: &'a [u8],
    pub p: usize,
}

impl<'a> Rd<'a> {
    pub fn new(d: &'a [u8]) -> Self {
        Rd { d, p: 0 }
    }
    pub fn left(&self) -> usize {
        self.d.len() - self.p
    }
    pub fn take(&mut self, n: usize) -> Result<&'a [u8], String> {
        if self.left() < n {
            return Err(format!("need {} bytes at {}, {} left", n, self.p, self.left()));
        }
        let s = &self.d[self.p..self.p + n];
        self.p += n;
        Ok(s)
    }
    pub fn u8(&mut self) -> Result<u8, String> {
        Ok(self.take(1)?[0])
    }
    pub fn u16(&mut self) -> Result<u16, String> {
        let b = self.take(2)?;
        Ok(u16::from_be_bytes([b[0], b[1]]))
    }
    pub fn u24(&mut self) -> Result<u32, String> {
        let b = self.take(3)?;
        Ok(u32::from_be_bytes([0, b[0], b[1], b[2]]))
    }
    pub fn u32(&mut self) -> Result<u32, String> {
        let b = self.take(4)?;
        Ok(u32::from_be_bytes([b[0], b[1], b[2], b[3]]))
    }
    pub fn i32(&mut self) -> Result<i32, String> {
        Ok(self.u32()? as i32)
    }
    pub fn u64(&mut self) -> Result<u64, String> {
        let b = self.take(8)?;
        Ok(u64::from_be_bytes([b[0], b[1], b[2], b[3], b[4], b[5], b[6], b[7]]))
    }
    /// version, flags
    pub fn full(&mut self) -> Result<(u8, u32), String> {
        let v = self.u8()?;
        let f = self.u24()?;
        Ok((v, f))
    }
}

#[derive(Debug, Clone, Default)]
pub struct Tables {
    pub stts: Vec<(u32, u32)>,
    pub ctts: Option<(u8, Vec<(u32, i32)>)>,
    pub stss: Option<Vec<u32>>,
    pub stsc: Vec<(u32, u32, u32)>,
    pub stsz_size: u32,
    pub stsz_count: u32,
    pub stsz_sizes: Vec<u32>,
    pub offsets: Vec<u64>,
    pub co64: bool,
}

fn exact(r: &Rd, what: &str) -> Result<(), String> {
    if r.left() != 0 {
        return Err(format!("{}: {} unexpected trailing bytes", what, r.left()));
    }
    Ok(())
}

pub fn tables(stbl: &Node) -> Result<Tables, String> {
    let mut t = Tables::default();
    let need = |cc: &[u8; 4]| stbl.kid(cc).ok_or(format!("stbl lacks {}", String::from_utf8_lossy(cc)));
    {
        let mut r = Rd::new(&need(b"stts")?.payload);
        r.full()?;
        let n = r.u32()?;
        for _ in 0..n {
            t.stts.push((r.u32()?, r.u32()?));
        }
        exact(&r, "stts")?;
    }
    if let Some(b) = stbl.kid(b"ctts") {
        let mut r = Rd::new(&b.payload);
        let (v, _) = r.full()?;
        let n = r.u32()?;
        let mut e = vec![];
        for _ in 0..n {
            e.push((r.u32()?, r.i32()?));
        }
        exact(&r, "ctts")?;
        t.ctts = Some((v, e));
    }
    if let Some(b) = stbl.kid(b"stss") {
        let mut r = Rd::new(&b.payload);
        r.full()?;
        let n = r.u32()?;
        let mut e = vec![];
        for _ in 0..n {
            e.push(r.u32()?);
        }
        exact(&r, "stss")?;
        t.stss = Some(e);
    }
    {
        let mut r = Rd::new(&need(b"stsc")?.payload);
        r.full()?;
        let n = r.u32()?;
        for _ in 0..n {
            t.stsc.push((r.u32()?, r.u32()?, r.u32()?));
        }
        exact(&r, "stsc")?;
    }
    {
        let mut r = Rd::new(&need(b"stsz")?.payload);
        r.full()?;
        t.stsz_size = r.u32()?;
        t.stsz_count = r.u32()?;
        if t.stsz_size == 0 {
            for _ in 0..t.stsz_count {
                t.stsz_sizes.push(r.u32()?);
            }
        }
        exact(&r, "stsz")?;
    }
    match (stbl.kid(b"stco"), stbl.kid(b"co64")) {
        (Some(b), None) => {
            let mut r = Rd::new(&b.payload);
            r.full()?;
            let n = r.u32()?;
            for _ in 0..n {
                t.offsets.push(r.u32()? as u64);
            }
            exact(&r, "stco")?;
        }
        (None, Some(b)) => {
            let mut r = Rd::new(&b.payload);
            r.full()?;
            let n = r.u32()?;
            for _ in 0..n {
                t.offsets.push(r.u64()?);
            }
            exact(&r, "co64")?;
            t.co64 = true;
        }
        (Some(_), Some(_)) => return Err("stbl has both stco and co64".into()),
        (None, None) => return Err("stbl has neither stco nor co64".into()),
    }
    Ok(t)
}

/// (version, timescale, duration) of mvhd / mdhd; (version, track_id, duration) of tkhd.
pub fn mvhd_like(payload: &[u8]) -> Result<(u8, u32, u64), String> {
    let mut r = Rd::new(payload);
    let (v, _) = r.full()?;
    match v {
        0 => {
            r.u32()?;
            r.u32()?;
            let ts = r.u32()?;
            let d = r.u32()? as u64;
            Ok((v, ts, d))
        }
        1 => {
            r.u64()?;
            r.u64()?;
            let ts = r.u32()?;
            let d = r.u64()?;
            Ok((v, ts, d))
        }
        _ => Err(format!("unsupported version {}", v)),
    }
}

pub fn tkhd(payload: &[u8]) -> Result<(u8, u32, u64), String> {
    let mut r = Rd::new(payload);
    let (v, _) = r.full()?;
    match v {
        0 => {
            r.u32()?;
            r.u32()?;
            let id = r.u32()?;
            r.u32()?;
            let d = r.u32()? as u64;
            if r.left() != 60 {
                return Err(format!("tkhd v0 has {} bytes after duration, expected 60", r.left()));
            }
            Ok((v, id, d))
        }
        1 => {
            r.u64()?;
            r.u64()?;
            let id = r.u32()?;
            r.u32()?;
            let d = r.u64()?;
            if r.left() != 60 {
                return Err(format!("tkhd v1 has {} bytes after duration, expected 60", r.left()));
            }
            Ok((v, id, d))
        }
        _ => Err(format!("unsupported version {}", v)),
    }
}

/// Sample-table lookup semantics of ISO/IEC 14496-12 §8.6–8.7 evaluated on decoded tables (REFSPEC §4):
/// for every sample 1..=N: (absolute offset, size, decode time, duration, composition offset, sync).
pub fn locate_all(t: &Tables) -> Result<Vec<(u64, u32, u64, u32, i32, bool)>, String> {
    let n = t.stsz_count as usize;
    let sizes: Vec<u32> = if t.stsz_size != 0 { vec![t.stsz_size; n] } else { t.stsz_sizes.clone() };
    if sizes.len() != n {
        return Err("stsz size vector shorter than sample_count".into());
    }
    // chunk map
    let nchunks = t.offsets.len();
    let mut chunk_of: Vec<(usize, usize)> = vec![]; // per sample: (chunk index, index in chunk)
    for (i, e) in t.stsc.iter().enumerate() {
        let first = e.0 as usize;
        let next = if i + 1 < t.stsc.len() { t.stsc[i + 1].0 as usize } else { nchunks + 1 };
        for c in first..next {
            for j in 0..e.1 as usize {
                if chunk_of.len() < n {
                    chunk_of.push((c - 1, j));
                }
            }
        }
    }
    if chunk_of.len() != n {
        return Err(format!("chunk map covers {} samples, stsz says {}", chunk_of.len(), n));
    }
    let mut deltas = vec![];
    for (c, d) in t.stts.iter() {
        for _ in 0..*c {
            deltas.push(*d);
        }
    }
    let mut cts = vec![];
    if let Some((_, e)) = &t.ctts {
        for (c, o) in e.iter() {
            for _ in 0..*c {
                cts.push(*o);
            }
        }
    }
    let mut out = vec![];
    let mut dts = 0u64;
    let mut k = 0usize;
    while k < n {
        let (c, j) = chunk_of[k];
        let mut off = *t.offsets.get(c).ok_or("chunk beyond the offset table")?;
        for q in (k - j)..k {
            off += sizes[q] as u64;
        }
        let d = *deltas.get(k).ok_or("stts shorter than stsz")?;
        let sync = match &t.stss {
            Some(s) => s.contains(&(k as u32 + 1)),
            None => true,
        };
        out.push((off, sizes[k], dts, d, cts.get(k).copied().unwrap_or(0), sync));
        dts += d as u64;
        k += 1;
    }
    Ok(out)
}
