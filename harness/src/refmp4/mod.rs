//! Independent reference model of ISO-BMFF (never calls into `mp4`).
pub mod kitchen;
