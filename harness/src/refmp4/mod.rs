//! Independent reference model of ISO-BMFF (never calls into `mp4`).
pub mod kitchen;
pub mod parse;
pub mod validate;
