//! Independent reference model of ISO-BMFF (never calls into `mp4`).
pub mod build;
pub mod frag;
pub mod kitchen;
pub mod movie;
pub mod parse;
pub mod tree;
pub mod validate;
