//! C02 oracle: validate a muxer output with the independent parser against what was written.

use super::parse::*;
use crate::mux::{MovieSpec, RefSample};
use serde_json::{json, Value};

#[derive(Clone, Debug)]
pub struct WSample {
    pub size: u64,
    pub dur: u32,
    pub off: i32,
    pub sync: bool,
}

pub type Fail = (String, Value);

fn fail(clause: &str, detail: Value) -> Option<Fail> {
    Some((clause.to_string(), detail))
}

pub fn check_muxer_output(bytes: &Vec<u8>, model: &[Vec<RefSample>], movie: &MovieSpec, added: &[usize]) -> Option<Fail> {
    let m: Vec<Vec<WSample>> = model.iter().map(|t| t.iter().map(|s| WSample { size: s.bytes.len() as u64, dur: s.dur, off: s.off, sync: s.sync }).collect()).collect();
    let ts: Vec<u32> = added.iter().map(|&i| movie.tracks[i].timescale).collect();
    validate(bytes, 0, &m, movie.timescale, &ts)
}

/// `start`: stream position at which the muxer started writing (non-zero origins, C13).
pub fn validate(src: &dyn Src, start: u64, model: &[Vec<WSample>], movie_ts: u32, track_ts: &[u32]) -> Option<Fail> {
    // ---- top level: tiling, ftyp first, one moov, one mdat
    let tops = match top_level(src, start) {
        Ok(t) => t,
        Err(e) => return fail("top_level_tiling", json!(e)),
    };
    let names: Vec<String> = tops.iter().map(|t| String::from_utf8_lossy(&t.cc).into_owned()).collect();
    if tops.first().map(|t| &t.cc) != Some(b"ftyp") {
        return fail("ftyp_first", json!(names));
    }
    if tops.iter().filter(|t| &t.cc == b"ftyp").count() != 1 || tops.iter().filter(|t| &t.cc == b"moov").count() != 1 || tops.iter().filter(|t| &t.cc == b"mdat").count() != 1 {
        return fail("one_ftyp_one_moov_one_mdat", json!(names));
    }
    let mdat = tops.iter().find(|t| &t.cc == b"mdat").unwrap();
    let moov_t = tops.iter().find(|t| &t.cc == b"moov").unwrap();
    if moov_t.size > (1 << 30) {
        return fail("moov_unreasonably_large", json!(moov_t.size));
    }
    let mut moov_bytes = vec![0u8; moov_t.size as usize];
    if !src.read_at(moov_t.start, &mut moov_bytes) {
        return fail("moov_unreadable", json!(moov_t.start));
    }
    // ---- containers sized exactly by header + children (recursively)
    let tree = match tree(&moov_bytes, moov_t.start) {
        Ok(t) => t,
        Err(e) => return fail("container_sizes", json!(e)),
    };
    let moov = &tree[0];
    let mvhd = match moov.kid(b"mvhd").map(|b| mvhd_like(&b.payload)) {
        Some(Ok(x)) => x,
        o => return fail("mvhd", json!(format!("{:?}", o))),
    };
    if mvhd.1 != movie_ts {
        return fail("mvhd_timescale", json!({"got": mvhd.1, "expected": movie_ts}));
    }
    let traks = moov.kids_named(b"trak");
    if traks.len() != model.len() {
        return fail("trak_count", json!({"got": traks.len(), "expected": model.len()}));
    }
    let mdat_lo = mdat.start + mdat.header;
    let mdat_hi = mdat.start + mdat.size;
    let mut all_chunks: Vec<(u64, u64, usize)> = vec![];
    let mut longest: (u128, u128) = (0, 1); // Σ·M / T as a fraction
    for (ti, (trak, samples)) in traks.iter().zip(model.iter()).enumerate() {
        let n = samples.len() as u64;
        let t_ts = track_ts[ti];
        let d = |x: Value| {
            let mut x = x;
            x["track"] = json!(ti + 1);
            x
        };
        let tk = match trak.kid(b"tkhd").map(|b| tkhd(&b.payload)) {
            Some(Ok(x)) => x,
            o => return fail("tkhd", d(json!({"error": format!("{:?}", o)}))),
        };
        if tk.1 != ti as u32 + 1 {
            return fail("track_id_order", d(json!({"got": tk.1})));
        }
        let md = match trak.path(&[b"mdia", b"mdhd"]).map(|b| mvhd_like(&b.payload)) {
            Some(Ok(x)) => x,
            o => return fail("mdhd", d(json!({"error": format!("{:?}", o)}))),
        };
        if md.1 != t_ts {
            return fail("mdhd_timescale", d(json!({"got": md.1, "expected": t_ts})));
        }
        let stbl = match trak.path(&[b"mdia", b"minf", b"stbl"]) {
            Some(s) => s,
            None => return fail("stbl_missing", d(json!({}))),
        };
        let tb = match tables(stbl) {
            Ok(t) => t,
            Err(e) => return fail("sample_table_decode", d(json!({"error": e}))),
        };
        // stsz
        if tb.stsz_count as u64 != n {
            return fail("stsz_count", d(json!({"got": tb.stsz_count, "expected": n})));
        }
        let sizes: Vec<u64> = if tb.stsz_size != 0 { vec![tb.stsz_size as u64; n as usize] } else { tb.stsz_sizes.iter().map(|&s| s as u64).collect() };
        if sizes.len() as u64 != n || sizes.iter().zip(samples.iter()).any(|(a, b)| *a != b.size) {
            return fail("stsz_sizes", d(json!({"got": sizes.iter().take(8).collect::<Vec<_>>(), "expected": samples.iter().take(8).map(|s| s.size).collect::<Vec<_>>()})));
        }
        // stts
        let stts_total: u64 = tb.stts.iter().map(|e| e.0 as u64).sum();
        if stts_total != n {
            return fail("stts_total", d(json!({"got": stts_total, "expected": n})));
        }
        let mut deltas = vec![];
        for (c, dl) in tb.stts.iter() {
            for _ in 0..*c {
                deltas.push(*dl);
            }
        }
        if deltas.iter().zip(samples.iter()).any(|(a, b)| *a != b.dur) {
            return fail("stts_deltas", d(json!({"got": deltas.iter().take(8).collect::<Vec<_>>()})));
        }
        // ctts
        if let Some((_, e)) = &tb.ctts {
            let tot: u64 = e.iter().map(|x| x.0 as u64).sum();
            if tot != n {
                return fail("ctts_total", d(json!({"got": tot, "expected": n})));
            }
            let mut offs = vec![];
            for (c, o) in e.iter() {
                for _ in 0..*c {
                    offs.push(*o);
                }
            }
            if offs.iter().zip(samples.iter()).any(|(a, b)| *a != b.off) {
                return fail("ctts_offsets", d(json!({"got": offs.iter().take(8).collect::<Vec<_>>()})));
            }
        } else if samples.iter().any(|s| s.off != 0) {
            return fail("ctts_missing", d(json!({})));
        }
        // stss
        match &tb.stss {
            Some(e) => {
                let mut prev = 0u32;
                for &x in e.iter() {
                    if x <= prev || x as u64 > n {
                        return fail("stss_increasing_in_range", d(json!({"entries": e.iter().take(8).collect::<Vec<_>>(), "n": n})));
                    }
                    prev = x;
                }
                let want: Vec<u32> = samples.iter().enumerate().filter(|(_, s)| s.sync).map(|(i, _)| i as u32 + 1).collect();
                if *e != want {
                    return fail("stss_entries", d(json!({"got": e.iter().take(8).collect::<Vec<_>>(), "expected": want.iter().take(8).collect::<Vec<_>>()})));
                }
            }
            None => {
                if samples.iter().any(|s| !s.sync) {
                    return fail("stss_missing_although_non_sync_samples", d(json!({})));
                }
            }
        }
        // chunk map
        let nchunks = tb.offsets.len() as u64;
        let mut per_chunk: Vec<u64> = vec![];
        for (i, e) in tb.stsc.iter().enumerate() {
            let first = e.0 as u64;
            let next = if i + 1 < tb.stsc.len() { tb.stsc[i + 1].0 as u64 } else { nchunks + 1 };
            if first < 1 || next <= first && i + 1 < tb.stsc.len() || first > nchunks + 1 {
                return fail("stsc_first_chunk_order", d(json!({"stsc": tb.stsc.iter().take(8).collect::<Vec<_>>(), "chunks": nchunks})));
            }
            if i == 0 && first != 1 {
                return fail("stsc_starts_at_chunk_1", d(json!({"first": first})));
            }
            if e.2 != 1 {
                return fail("stsc_sample_description_index", d(json!({"got": e.2})));
            }
            for _ in first..next.min(nchunks + 1) {
                per_chunk.push(e.1 as u64);
            }
        }
        if per_chunk.len() as u64 != nchunks {
            return fail("stsc_covers_all_chunks", d(json!({"covered": per_chunk.len(), "chunks": nchunks})));
        }
        let mapped: u64 = per_chunk.iter().sum();
        if mapped != n {
            return fail("stsc_total", d(json!({"got": mapped, "expected": n, "stsc": tb.stsc.iter().take(8).collect::<Vec<_>>(), "chunks": nchunks})));
        }
        let mut k = 0usize;
        for (ci, (&off, &cnt)) in tb.offsets.iter().zip(per_chunk.iter()).enumerate() {
            let len: u64 = sizes[k..k + cnt as usize].iter().sum();
            k += cnt as usize;
            if off < mdat_lo || off.checked_add(len).map(|e| e > mdat_hi).unwrap_or(true) {
                return fail("chunk_inside_mdat", d(json!({"chunk": ci + 1, "offset": off, "len": len, "mdat": [mdat_lo, mdat_hi]})));
            }
            if cnt == 0 {
                return fail("empty_chunk_in_map", d(json!({"chunk": ci + 1})));
            }
            all_chunks.push((off, len, ti + 1));
        }
        // durations
        let sum: u64 = samples.iter().map(|s| s.dur as u64).sum();
        if md.2 != sum {
            return fail("mdhd_duration", d(json!({"got": md.2, "expected": sum})));
        }
        if (md.0 == 0) && sum > u32::MAX as u64 {
            return fail("mdhd_version_form", d(json!({"version": md.0, "duration": sum})));
        }
        if t_ts != 0 {
            // |tkhd - sum*M/T| <= 1  <=>  |tkhd*T - sum*M| <= T
            let lhs = tk.2 as u128 * t_ts as u128;
            let rhs = sum as u128 * movie_ts as u128;
            let diff = if lhs > rhs { lhs - rhs } else { rhs - lhs };
            if diff > t_ts as u128 {
                return fail("tkhd_duration", d(json!({"got": tk.2, "sum": sum, "movie_timescale": movie_ts, "track_timescale": t_ts, "exact": rhs as f64 / t_ts as f64})));
            }
            if tk.0 == 0 && tk.2 > u32::MAX as u64 {
                return fail("tkhd_version_form", d(json!({"duration": tk.2})));
            }
            // longest = max(sum*M/T)
            if rhs * longest.1 > longest.0 * t_ts as u128 {
                longest = (rhs, t_ts as u128);
            }
        }
    }
    // chunks pairwise disjoint (zero-length chunks are disjoint from everything)
    let mut ch: Vec<&(u64, u64, usize)> = all_chunks.iter().filter(|c| c.1 > 0).collect();
    ch.sort();
    for w in ch.windows(2) {
        if w[0].0 + w[0].1 > w[1].0 {
            return fail("chunks_disjoint", json!({"a": w[0], "b": w[1]}));
        }
    }
    if track_ts.iter().all(|&t| t != 0) {
        // |mvhd - longest| <= 1
        let lhs = mvhd.2 as u128 * longest.1;
        let diff = if lhs > longest.0 { lhs - longest.0 } else { longest.0 - lhs };
        if diff > longest.1 {
            return fail("mvhd_duration", json!({"got": mvhd.2, "longest_track_in_movie_ticks": longest.0 as f64 / longest.1 as f64}));
        }
        if mvhd.0 == 0 && mvhd.2 > u32::MAX as u64 {
            return fail("mvhd_version_form", json!({"duration": mvhd.2}));
        }
    }
    None
}
