//! Reference-encoded "kitchen-sink" baselines K1..K5 (DESIGN §3 C06): together with the muxer outputs
//! and the canned files they make the parser visit every box reader of the crate.

use super::build::*;
use super::frag::*;
use super::movie::*;
use super::tree::*;
use crate::common::Tier;
use crate::e3::Baseline;

fn samples(n: usize) -> Vec<LSample> {
    (0..n).map(|i| LSample { size: 2 + (i as u32 % 3), delta: 100 + i as u32, cts: if i % 2 == 1 { 7 } else { 0 }, sync: i % 2 == 0 }).collect()
}

fn itunes_meta(full: bool) -> Node {
    udta(vec![meta(
        full,
        vec![
            hdlr(0, 0, b"mdir", ""),
            ilst(vec![ilst_item(&[0xa9, b'n', b'a', b'm'], 1, b"Kitchen sink"), ilst_item(&[0xa9, b'd', b'a', b'y'], 1, b"2024"), ilst_item(b"covr", 13, &[0xff, 0xd8, 0xff, 0xe0, 1, 2]), ilst_item(b"desc", 1, b"every box"), ilst_item(&[0xa9, b't', b'o', b'o'], 1, b"enc")]),
            free(4),
        ],
    )])
}

/// K1: progressive AVC + AAC, stss, ctts, edts/elst v0, iTunes metadata with all four items, free boxes.
pub fn k1() -> Vec<u8> {
    let mut t1 = LTrack::simple(1, Codec::Avc, 1000, samples(4), vec![2, 2]);
    t1.ctts = Some(0);
    t1.stss = true;
    t1.edts = Some(0);
    let mut t2 = LTrack::simple(2, Codec::Aac, 48000, samples(3), vec![1, 2]);
    t2.stsc_split = 0;
    t2.edts = Some(0);
    let mut m = LMovie::new(1000, vec![t1, t2]);
    m.moov_extra = vec![itunes_meta(true)];
    m.top_front = vec![free(8)];
    m.top_back = vec![free(3)];
    encode(&m).0
}

/// K2: HEVC (parameter-set arrays) + TTXT, co64, version-1 headers, elst v1, non-mdir meta with children, 64-bit mdat.
pub fn k2() -> Vec<u8> {
    let mut t1 = LTrack::simple(1, Codec::Hevc, 90000, samples(3), vec![1, 2]);
    t1.co64 = true;
    t1.ctts = Some(1);
    t1.samples[1].cts = -5;
    t1.edts = Some(1);
    let mut t2 = LTrack::simple(2, Codec::Tx3g, 1000, samples(2), vec![2]);
    t2.co64 = true;
    t2.const_size = false;
    let mut m = LMovie::new(600, vec![t1, t2]);
    m.force_v1 = true;
    m.large_mdat = true;
    m.moov_extra = vec![udta(vec![meta(true, vec![hdlr(0, 0, b"mdta", "Metadata"), Node::leaf(b"keys", vec![0, 0, 0, 0, 0, 0, 0, 1, 0, 0, 0, 12, b'm', b'd', b't', b'a', b'k', b'e', b'y', b'1']), unknown(b"xml ", 9)])]), meta(true, vec![hdlr(0, 0, b"mdir", ""), ilst(vec![])])];
    encode(&m).0
}

/// Replace the plain mp4a sample entry of the `track_index`-th trak by the QuickTime form: sound description v1 with the
/// esds inside a `wave` wrapper (logical content unchanged).
pub fn wrap_mp4a_in_wave(nodes: &mut [Node], track_index: usize) {
    let esds_v = Esds { version: 0, flags: 0, es_id: 2, object_type_indication: 0x40, stream_type: 5, up_stream: false, buffer_size_db: 0x1234, max_bitrate: 96000, avg_bitrate: 64000, audio_object_type: 5, freq_index: 4, frequency: 0, chan_conf: 1, len_bytes: 4 };
    let audio = Audio { data_reference_index: 1, channelcount: 1, samplesize: 16, samplerate: 44100 << 16, qt_version: 1 };
    let moov = nodes.iter_mut().find(|n| &n.cc == b"moov").unwrap();
    let trak = moov.children_mut().unwrap().iter_mut().filter(|n| &n.cc == b"trak").nth(track_index).unwrap();
    let stsd_n = trak.child_mut(b"mdia").unwrap().child_mut(b"minf").unwrap().child_mut(b"stbl").unwrap().child_mut(b"stsd").unwrap();
    stsd_n.children_mut().unwrap()[0] = mp4a_wave(&audio, &esds_v);
}

/// K3: VP9 + mp4a with a `wave` wrapper (QuickTime sound description v1) and a QuickTime-style (version-less) meta.
pub fn k3() -> Vec<u8> {
    let t1 = LTrack::simple(1, Codec::Vp9, 30, samples(2), vec![1, 1]);
    let t2 = LTrack::simple(2, Codec::Aac, 44100, samples(2), vec![2]);
    let mut m = LMovie::new(1000, vec![t1, t2]);
    m.moov_extra = vec![itunes_meta(false)];
    m.mdat_first = true;
    let mut nodes = nodes(&m);
    wrap_mp4a_in_wave(&mut nodes, 1);
    serialize(&nodes).0
}

pub fn k4_movie() -> LFragMovie {
    let run = |track: u32, base: Base, before: bool, psd: bool, cts: Option<u8>, tfdt_v: u8, t0: u64, n: usize, flags_mode: u8| LRun {
        no_trun: false,
        track_id: track,
        base,
        frag_default_duration: if psd { None } else { Some(512) },
        per_sample_durations: psd,
        cts_version: cts,
        data_offset: true,
        data_before_moof: before,
        tfdt_version: tfdt_v,
        base_time: t0,
        samples: samples(n),
        flags_mode,
    };
    LFragMovie {
        movie_ts: 1000,
        tracks: vec![LFragTrack { id: 1, codec: Codec::Avc, timescale: 12800, trex_default_duration: 512 }, LFragTrack { id: 2, codec: Codec::Aac, timescale: 48000, trex_default_duration: 1024 }],
        fragments: vec![
            vec![run(1, Base::DefaultBaseIsMoof, false, true, Some(0), 0, 0, 2, 2), run(2, Base::Explicit { at_moof: true }, false, false, None, 1, 0, 2, 1)],
            vec![run(1, Base::Neither, false, true, Some(1), 1, 1024, 1, 1), run(2, Base::DefaultBaseIsMoof, true, true, None, 0, 2048, 2, 0)],
        ],
        mehd: Some(1),
        large_moof: false,
                offsets_only: false,
                fillers: 0,
    }
}

fn k4_emsgs() -> Vec<Node> {
    vec![
        emsg(&Emsg { version: 0, flags: 0, timescale: 1000, presentation_time: 0, presentation_time_delta: 5, event_duration: 100, id: 1, scheme: "urn:x".into(), value: "v".into(), data: vec![1, 2, 3] }),
        emsg(&Emsg { version: 1, flags: 0, timescale: 90000, presentation_time: (1u64 << 33) + 1, presentation_time_delta: 0, event_duration: 0xffff_ffff, id: 2, scheme: "urn:scte:scte35:2013:bin".into(), value: "".into(), data: vec![] }),
    ]
}

/// K4: fragmented in one stream: mvex/mehd/trex, emsg v0+v1, 2 moof x 2 traf, tfdt v0/v1, trun with every flag.
pub fn k4() -> Vec<u8> {
    let m = k4_movie();
    let mut all = init_nodes(&m);
    let (media, _) = media_nodes(&m);
    all.extend(k4_emsgs());
    all.extend(media);
    serialize(&all).0
}

/// K5: (initialization segment, media segment) of the same movie, for read_fragment_header.
pub fn k5() -> (Vec<u8>, Vec<u8>) {
    let m = k4_movie();
    let (media, _) = media_nodes(&m);
    let mut seg = vec![Node::leaf(b"styp", b"msdh\0\0\0\0msdh".to_vec())];
    seg.extend(k4_emsgs());
    seg.extend(media);
    (serialize(&init_nodes(&m)).0, serialize(&seg).0)
}

/// K6: one fragment whose trafs carry every single-column shape of `trun` (none, durations only, sizes only,
/// flags only, composition offsets only, all) and a `tfhd` with every optional field: one input per
/// flag-gated shortcut of the fragment readers.
pub fn k6() -> Vec<u8> {
    let m = LFragMovie { movie_ts: 1000, tracks: vec![LFragTrack { id: 1, codec: Codec::Avc, timescale: 12800, trex_default_duration: 512 }], fragments: vec![], mehd: None, large_moof: false, offsets_only: false, fillers: 0 };
    let mut all = init_nodes(&m);
    let mut trafs = vec![mfhd(1)];
    let shapes: [(bool, bool, bool, bool); 6] = [(false, false, false, false), (true, false, false, false), (false, true, false, false), (false, false, true, false), (false, false, false, true), (true, true, true, true)];
    for (i, (d, s, f, c)) in shapes.iter().enumerate() {
        let n = 2usize;
        let th = Tfhd { version: 0, extra_flags: 0x020000, track_id: 1, base_data_offset: if i == 5 { Some(900) } else { None }, sample_description_index: Some(1), default_sample_duration: Some(512), default_sample_size: Some(3), default_sample_flags: Some(0x0101_0000) };
        let tr = Trun {
            version: (i % 2) as u8,
            sample_count: n as u32,
            data_offset: Some(400 + 8 * i as i32),
            first_sample_flags: if *f { None } else { Some(0x0200_0000) },
            durations: if *d { Some(vec![500, 524]) } else { None },
            sizes: if *s { Some(vec![3, 3]) } else { None },
            flags_: if *f { Some(vec![0x0200_0000, 0x0101_0000]) } else { None },
            cts: if *c { Some(vec![0, 256]) } else { None },
        };
        trafs.push(Node::kids(b"traf", vec![tfhd(&th), tfdt((i % 2) as u8, 1024 * i as u64), trun(&tr)]));
    }
    all.push(Node::kids(b"moof", trafs));
    all.push(Node::leaf(b"mdat", (0..96u8).map(|i| i.wrapping_mul(7).wrapping_add(1)).collect()));
    serialize(&all).0
}

/// K7: several runs inside ONE track fragment, each with another set of per-sample columns (all carry sizes, so all
/// samples are readable), a second track fragment of the same track in the same moof, and a second moof whose traf
/// repeats tfdt.  "Several boxes of a kind where a reader may expect one."
pub fn k7() -> Vec<u8> {
    let m = LFragMovie { movie_ts: 1000, tracks: vec![LFragTrack { id: 1, codec: Codec::Avc, timescale: 12800, trex_default_duration: 512 }], fragments: vec![], mehd: None, large_moof: false, offsets_only: false, fillers: 0 };
    let build = |moof_len: i32| {
        let mut all = init_nodes(&m);
        // (durations, flags, cts) per run; sizes always present
        let shapes: [(bool, bool, bool); 5] = [(true, false, false), (false, false, false), (true, true, true), (false, false, true), (false, true, false)];
        let mut runs = vec![];
        for (i, (d, f, c)) in shapes.iter().enumerate() {
            let tr = Trun {
                version: (i % 2) as u8,
                sample_count: 2,
                data_offset: Some(moof_len + 8 + 6 * i as i32),
                first_sample_flags: if *f { None } else { Some(0x0200_0000) },
                durations: if *d { Some(vec![500, 524]) } else { None },
                sizes: Some(vec![2, 4]),
                flags_: if *f { Some(vec![0x0200_0000, 0x0101_0000]) } else { None },
                cts: if *c { Some(vec![0, 256]) } else { None },
            };
            runs.push(trun(&tr));
        }
        let th = Tfhd { version: 0, extra_flags: 0x020000, track_id: 1, base_data_offset: None, sample_description_index: None, default_sample_duration: Some(512), default_sample_size: None, default_sample_flags: Some(0x0101_0000) };
        let mut t1 = vec![tfhd(&th), tfdt(1, 0)];
        t1.extend(runs.iter().cloned());
        let mut t2 = vec![tfhd(&th), tfdt(0, 5120)];
        t2.extend(runs.iter().rev().take(2).cloned());
        all.push(Node::kids(b"moof", vec![mfhd(1), Node::kids(b"traf", t1), Node::kids(b"traf", t2)]));
        all.push(Node::leaf(b"mdat", (0..64u8).map(|i| i.wrapping_mul(5).wrapping_add(3)).collect()));
        let mut t3 = vec![tfhd(&th), tfdt(0, 9000), tfdt(1, 9000)];
        t3.push(runs[0].clone());
        all.push(Node::kids(b"moof", vec![mfhd(2), mfhd(3), Node::kids(b"traf", t3)]));
        all.push(Node::leaf(b"mdat", vec![9; 700]));
        all
    };
    let probe = build(0);
    let moof_len = serialize(&[probe.iter().find(|n| &n.cc == b"moof").unwrap().clone()]).0.len() as i32;
    serialize(&build(moof_len)).0
}

pub fn baselines(tier: Tier) -> Vec<Baseline> {
    let th = tier == Tier::Thorough;
    let (i5, s5) = k5();
    vec![
        Baseline { name: "K1:avc+aac,stss,ctts,elst0,itunes-meta,free".into(), bytes: k1(), init: None, pairs: th },
        Baseline { name: "K2:hevc+ttxt,co64,v1-headers,elst1,non-mdir-meta,64-bit-mdat".into(), bytes: k2(), init: None, pairs: th },
        Baseline { name: "K3:vp9+mp4a(wave),quicktime-meta,mdat-first".into(), bytes: k3(), init: None, pairs: th },
        Baseline { name: "K4:fragmented,emsg,2moof-x-2traf".into(), bytes: k4(), init: None, pairs: th },
        Baseline { name: "K5:media-segment-against-init".into(), bytes: s5, init: Some(i5), pairs: th },
        Baseline { name: "K6:every-trun-column-shape,full-tfhd".into(), bytes: k6(), init: None, pairs: th },
        Baseline { name: "K7:several-truns-per-traf,several-trafs-per-track,repeated-tfdt-mfhd".into(), bytes: k7(), init: None, pairs: false },
    ]
}

/// Extra layouts for the cut sweep of C11: (name, bytes).
pub fn cut_layouts(_tier: Tier) -> Vec<(String, Vec<u8>)> {
    // a movie-header-first file whose media data is split over two mdat boxes: cutting between them still opens
    let t1 = LTrack::simple(1, Codec::Avc, 1000, samples(4), vec![2, 2]);
    let m = LMovie::new(1000, vec![t1]);
    let mut nodes = nodes(&m);
    nodes.push(free(6));
    // 64-bit chunk offsets with the movie header LAST (so that a cut inside moov is actually parsed): every table kind present
    let mut a = LTrack::simple(1, Codec::Hevc, 90000, samples(5), vec![2, 1, 2]);
    a.co64 = true;
    a.ctts = Some(1);
    a.stss = true;
    a.edts = Some(1);
    let mut b = LTrack::simple(2, Codec::Aac, 48000, samples(4), vec![1, 3]);
    b.co64 = true;
    b.const_size = false;
    let mut m2 = LMovie::new(1000, vec![a, b]);
    m2.mdat_first = true;
    m2.mdat_lead = 2500;
    m2.moov_extra = vec![itunes_meta(true)];
    vec![("co64+ctts+stss+elst1+metadata, moov last".into(), encode(&m2).0), ("K1 (moov first, metadata, trailing free)".into(), k1()), ("K4 (fragmented, emsg)".into(), k4()), ("moov first + trailing free".into(), serialize(&nodes).0), ("K3 (mdat first, QuickTime meta)".into(), k3())]
}

/// Movie-header-last files in which every box of the movie header in turn is the LAST box of the file (it and each of
/// its ancestors moved behind their siblings): a cut inside that box is then parsed with everything before it intact,
/// whatever kind of box it is.  Returns (name, bytes, first cut position worth exploring = start of moov).
pub fn cut_last_box_variants() -> Vec<(String, Vec<u8>, usize)> {
    let mut a = LTrack::simple(1, Codec::Avc, 1000, samples(5), vec![2, 1, 2]);
    a.ctts = Some(0);
    a.stss = true;
    a.edts = Some(0);
    let mut b = LTrack::simple(2, Codec::Aac, 48000, samples(5), vec![1, 2, 2]);
    b.co64 = true;
    let mut m = LMovie::new(1000, vec![a, b]);
    m.mdat_first = true;
    m.mdat_lead = 2500;
    m.moov_extra = vec![itunes_meta(true)];
    let base = nodes(&m);
    let moov_idx = base.iter().position(|n| &n.cc == b"moov").unwrap();
    fn paths(n: &Node, cur: &mut Vec<usize>, out: &mut Vec<Vec<usize>>) {
        out.push(cur.clone());
        if let Some(k) = n.children() {
            for (i, c) in k.iter().enumerate() {
                cur.push(i);
                paths(c, cur, out);
                cur.pop();
            }
        }
    }
    let mut all = vec![];
    paths(&base[moov_idx], &mut vec![], &mut all);
    let mut out = vec![];
    for p in all.iter().filter(|p| !p.is_empty()) {
        let mut v = base.clone();
        let mut name = String::from("moov");
        {
            let mut n = &mut v[moov_idx];
            for &i in p.iter() {
                let kids = n.children_mut().unwrap();
                let x = kids.remove(i);
                name.push('/');
                name.push_str(&x.name());
                kids.push(x);
                n = kids.last_mut().unwrap();
            }
        }
        let (bytes, anchors) = serialize(&v);
        let _ = anchors;
        let moov_start = {
            let mut pos = 0usize;
            let mut start = 0usize;
            while pos + 8 <= bytes.len() {
                let s = u32::from_be_bytes([bytes[pos], bytes[pos + 1], bytes[pos + 2], bytes[pos + 3]]) as usize;
                if &bytes[pos + 4..pos + 8] == b"moov" {
                    start = pos;
                    break;
                }
                pos += s.max(8);
            }
            start
        };
        out.push((format!("moov last, last box of the file = {}", name), bytes, moov_start));
    }
    out
}

/// Fragmented cut files whose fragments differ in where durations come from (movie default / fragment default /
/// per sample) and in their base-offset forms: (name, media or whole stream, init segment when delivered separately).
pub fn cut_fragmented_mixed() -> Vec<(String, Vec<u8>, Option<Vec<u8>>)> {
    use crate::props::c09::{all_opts, mk_run};
    let opts = all_opts();
    let pick = |fdd: bool, psd: bool, before: bool| *opts.iter().find(|o| o.fdd == fdd && o.psd == psd && o.before == before && o.cts.is_none() && o.tfdt_v == 1 && o.base_time == 5).unwrap();
    let a = pick(false, false, false); // movie-level default
    let b = pick(true, false, false); // fragment default
    let c = pick(false, true, true); // per-sample durations, data before the moof
    let mut out = vec![];
    for (name, seq) in [("movie-default,fragment-default", vec![a, b]), ("fragment-default,movie-default", vec![b, a]), ("movie-default,per-sample,fragment-default", vec![a, c, b])] {
        let m = LFragMovie {
            movie_ts: 1000,
            tracks: vec![LFragTrack { id: 1, codec: Codec::Avc, timescale: 12800, trex_default_duration: 9 }],
            fragments: seq.iter().enumerate().map(|(i, o)| vec![mk_run(1, o, 2, i as u32)]).collect(),
            mehd: None,
            large_moof: false,
            offsets_only: false,
                fillers: 0,
        };
        let init = init_nodes(&m);
        let (media, _) = media_nodes(&m);
        let mut all = init.clone();
        all.extend(media.iter().cloned());
        out.push((format!("fragmented, durations from {} (one stream)", name), serialize(&all).0, None));
        out.push((format!("fragmented, durations from {} (segment against init)", name), serialize(&media).0, Some(serialize(&init).0)));
    }
    out
}

/// A movie-header-first file with an open-ended media data box and samples of 100 B, 1.5 MiB, 70 KiB and 10 B, with the
/// cut positions worth exploring: the whole header region, and around every power of two, every multiple of 64 KiB
/// near a sample edge, 1 MiB past the start of the large sample, and every sample boundary.
pub fn cut_large_sample() -> (String, Vec<u8>, Vec<usize>) {
    cut_large_sample_of(3 << 19, "1.5 MiB")
}

/// The same with a sample just above 16 MiB.
pub fn cut_very_large_sample() -> (String, Vec<u8>, Vec<usize>) {
    cut_large_sample_of((16 << 20) + 4096, "16 MiB + 4 KiB")
}

fn cut_large_sample_of(big_size: u32, label: &str) -> (String, Vec<u8>, Vec<usize>) {
    let sizes = [100u32, big_size, 70 << 10, 10];
    let samples: Vec<LSample> = sizes.iter().enumerate().map(|(i, s)| LSample { size: *s, delta: 10 + i as u32, cts: 0, sync: i == 0 }).collect();
    let t = LTrack::simple(1, Codec::Avc, 1000, samples, vec![1, 2, 1]);
    let mut m = LMovie::new(1000, vec![t]);
    m.mdat_open_ended = true;
    let (bytes, payload) = encode(&m);
    let n = bytes.len();
    let mut cuts: Vec<usize> = (0..(payload as usize + 300).min(n)).step_by(if big_size > 1 << 22 { 5 } else { 1 }).collect();
    let mut edges = vec![payload as usize + 3];
    for s in sizes.iter() {
        let e = *edges.last().unwrap() + *s as usize;
        edges.push(e);
    }
    let mut marks: Vec<usize> = edges.clone();
    for j in 10..=24 {
        if (1usize << j) < n {
            marks.push(1usize << j);
        }
    }
    let big = edges[1];
    for k in [1usize << 16, 1 << 20, (1 << 20) + (1 << 16), 3 << 19, 1 << 24, (1 << 24) + 1] {
        if big + k < n {
            marks.push(big + k);
        }
    }
    marks.push(n);
    for mk in marks {
        for d in -3i64..=3 {
            let c = mk as i64 + d;
            if c >= 0 && (c as usize) < n {
                cuts.push(c as usize);
            }
        }
    }
    cuts.sort();
    cuts.dedup();
    (format!("moov first, open-ended mdat, samples of 100 B / {} / 70 KiB / 10 B (selected cuts)", label), bytes, cuts)
}

/// Extra files for the fault sweep of C10: (name, bytes).
pub fn fault_files(_tier: Tier) -> Vec<(String, Vec<u8>)> {
    vec![("K1".into(), k1()), ("K2".into(), k2()), ("K3".into(), k3()), ("K4".into(), k4())]
}

/// K1 with its *stream* cut at every position inside the media data while the declared length stays the
/// original one: reads of samples behind the cut fail (short read), the header still opens.
pub fn c15_truncated(tier: Tier) -> Vec<(String, Vec<u8>, u64)> {
    let mut t1 = LTrack::simple(1, Codec::Avc, 1000, samples(4), vec![2, 2]);
    t1.ctts = Some(0);
    t1.stss = true;
    let t2 = LTrack::simple(2, Codec::Aac, 48000, samples(3), vec![1, 2]);
    let m = LMovie::new(1000, vec![t1, t2]);
    let (bytes, payload) = encode(&m);
    let full = bytes.len() as u64;
    let step = if tier == Tier::Thorough { 1 } else { 2 };
    (payload as usize + 1..bytes.len())
        .step_by(step)
        .map(|c| (format!("two tracks, moov first, stream cut at {} of {}", c, full), bytes[..c].to_vec(), full))
        .collect()
}

/// Extra files for the reader state-graph search of C15.
pub fn c15_files(_tier: Tier) -> Vec<(String, Vec<u8>)> {
    vec![("K1 (metadata)".into(), k1()), ("K4 (fragmented, two tracks)".into(), k4())]
}
