//! Reference-encoded "kitchen-sink" baselines K1..K5 (see DESIGN §3 C06).
use crate::common::Tier;
use crate::e3::Baseline;

pub fn baselines(_tier: Tier) -> Vec<Baseline> {
    vec![]
}
