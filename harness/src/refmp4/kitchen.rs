//! Reference-encoded "kitchen-sink" baselines K1..K5 (see DESIGN §3 C06).
use crate::common::Tier;
use crate::e3::Baseline;

pub fn baselines(_tier: Tier) -> Vec<Baseline> {
    vec![]
}

/// Extra layouts for the cut sweep of C11: (name, bytes).
pub fn cut_layouts(_tier: Tier) -> Vec<(String, Vec<u8>)> {
    vec![]
}

/// Extra files for the fault sweep of C10: (name, bytes).
pub fn fault_files(_tier: Tier) -> Vec<(String, Vec<u8>)> {
    vec![]
}

/// Extra files for the reader state-graph search of C15.
pub fn c15_files(_tier: Tier) -> Vec<(String, Vec<u8>)> {
    vec![]
}
