//! Logical movies (non-fragmented): a description from which both the reference-encoded file and the
//! expected answer of every lookup are derived (ISO/IEC 14496-12 §8.6–8.7 semantics, REFSPEC §4).

use super::build::*;
use super::tree::*;

#[derive(Clone, Copy, Debug, PartialEq, Eq)]
pub enum Codec {
    Avc,
    Hevc,
    Vp9,
    Aac,
    Tx3g,
}

#[derive(Clone, Debug, PartialEq, Eq)]
pub struct LSample {
    pub size: u32,
    pub delta: u32,
    pub cts: i32,
    pub sync: bool,
}

#[derive(Clone, Debug)]
pub struct LTrack {
    pub id: u32,
    pub codec: Codec,
    pub timescale: u32,
    pub samples: Vec<LSample>,
    /// samples per chunk, in chunk order (sums to samples.len())
    pub chunks: Vec<u32>,
    /// optional extra run boundaries (bit i set: start a new run at element i although it equals its predecessor)
    pub stsc_split: u32,
    pub stts_split: u32,
    pub ctts_split: u32,
    pub co64: bool,
    /// encode sizes as one constant (only legal when all sizes are equal and non-zero)
    pub const_size: bool,
    /// composition offset table: None, or Some(version)
    pub ctts: Option<u8>,
    /// sync table present?
    pub stss: bool,
    pub edts: Option<u8>, // elst version
    /// order of the children of stbl: 0 canonical (stsd stts [ctts] [stss] stsc stsz stco); 1 optional tables last,
    /// after an uninterpreted box; 2 reversed; 3 optional tables first; 4 an uninterpreted box between all children
    pub stbl_order: u8,
}

impl LTrack {
    pub fn simple(id: u32, codec: Codec, timescale: u32, samples: Vec<LSample>, chunks: Vec<u32>) -> LTrack {
        LTrack { id, codec, timescale, samples, chunks, stsc_split: 0, stts_split: 0, ctts_split: 0, co64: false, const_size: false, ctts: None, stss: false, edts: None, stbl_order: 0 }
    }
}

#[derive(Clone, Debug)]
pub struct LMovie {
    pub timescale: u32,
    pub tracks: Vec<LTrack>,
    /// placement order of chunks in mdat: (track index, chunk index); must list every chunk once
    pub placement: Vec<(usize, usize)>,
    /// iTunes-style tags etc. (already built nodes placed inside moov after the traks)
    pub moov_extra: Vec<Node>,
    /// where mdat goes: after moov (false) or before it (true)
    pub mdat_first: bool,
    /// filler bytes at the start of the mdat payload (so that the first chunk is not at the payload start)
    pub mdat_lead: usize,
    /// write mvhd/tkhd/mdhd in their version-1 (64-bit) form although the values would fit version 0
    pub force_v1: bool,
    /// 64-bit size header on mdat
    pub large_mdat: bool,
    /// mdat is the last box of the file and declares size 0 ("to the end of the file"); needs !mdat_first, no top_back
    pub mdat_open_ended: bool,
    /// extra top-level boxes placed between ftyp and the rest / after everything
    pub top_front: Vec<Node>,
    pub top_back: Vec<Node>,
}

impl LMovie {
    pub fn default_placement(tracks: &[LTrack]) -> Vec<(usize, usize)> {
        let mut v = vec![];
        let max = tracks.iter().map(|t| t.chunks.len()).max().unwrap_or(0);
        for c in 0..max {
            for (ti, t) in tracks.iter().enumerate() {
                if c < t.chunks.len() {
                    v.push((ti, c));
                }
            }
        }
        v
    }
    pub fn new(timescale: u32, tracks: Vec<LTrack>) -> LMovie {
        let placement = Self::default_placement(&tracks);
        LMovie { timescale, tracks, placement, moov_extra: vec![], mdat_first: false, mdat_lead: 3, force_v1: false, large_mdat: false, mdat_open_ended: false, top_front: vec![], top_back: vec![] }
    }
}

/// Payload byte i of sample k (0-based) of track `id`: position-independent and distinctive.
pub fn sample_bytes(id: u32, k: usize, size: u32) -> Vec<u8> {
    (0..size).map(|i| ((id * 67 + k as u32 * 13 + i * 5) % 250 + 3) as u8).collect()
}

/// Run-length groups of `v` with optional extra boundaries: returns (start index, length) per run.
pub fn runs<T: PartialEq>(v: &[T], split: u32) -> Vec<(usize, usize)> {
    let mut out: Vec<(usize, usize)> = vec![];
    for i in 0..v.len() {
        let new = i == 0 || v[i] != v[i - 1] || (i < 32 && (split >> i) & 1 == 1);
        if new {
            out.push((i, 1));
        } else {
            out.last_mut().unwrap().1 += 1;
        }
    }
    out
}

/// Number of positions at which an optional run boundary could be placed (elements equal to their predecessor).
pub fn optional_boundaries<T: PartialEq>(v: &[T]) -> Vec<usize> {
    (1..v.len()).filter(|&i| v[i] == v[i - 1]).collect()
}

#[derive(Clone, Debug, PartialEq, Eq)]
pub struct Expect {
    /// offset relative to the start of the mdat payload
    pub rel_offset: u64,
    pub bytes: Vec<u8>,
    pub start: u64,
    pub duration: u32,
    pub cts: i32,
    pub sync: bool,
}

/// (per track) relative chunk offsets in the mdat payload and the mdat payload itself.
pub fn layout(m: &LMovie) -> (Vec<Vec<u64>>, Vec<u8>) {
    layout_opt(m, true)
}

/// As `layout`, optionally without materialising the sample payloads (for tables whose sizes exceed any real file).
pub fn layout_opt(m: &LMovie, with_payload: bool) -> (Vec<Vec<u64>>, Vec<u8>) {
    let mut rel: Vec<Vec<u64>> = m.tracks.iter().map(|t| vec![0; t.chunks.len()]).collect();
    let mut payload: Vec<u8> = (0..m.mdat_lead).map(|i| 0xE0u8.wrapping_add(i as u8)).collect();
    let mut pos = payload.len() as u64;
    // first sample index of each chunk
    let firsts: Vec<Vec<usize>> = m
        .tracks
        .iter()
        .map(|t| {
            let mut f = vec![];
            let mut k = 0usize;
            for c in t.chunks.iter() {
                f.push(k);
                k += *c as usize;
            }
            f
        })
        .collect();
    for &(ti, ci) in m.placement.iter() {
        let t = &m.tracks[ti];
        rel[ti][ci] = pos;
        let k0 = firsts[ti][ci];
        for k in k0..k0 + t.chunks[ci] as usize {
            if with_payload {
                payload.extend(sample_bytes(t.id, k, t.samples[k].size));
            }
            pos += t.samples[k].size as u64;
        }
    }
    (rel, payload)
}

/// What every lookup must return, per track, per sample (ids 1..=N).
pub fn expectations(m: &LMovie) -> Vec<Vec<Expect>> {
    expectations_opt(m, true)
}

pub fn expectations_opt(m: &LMovie, with_payload: bool) -> Vec<Vec<Expect>> {
    let (rel, _) = layout_opt(m, with_payload);
    m.tracks
        .iter()
        .enumerate()
        .map(|(ti, t)| {
            let mut out = vec![];
            let mut k = 0usize;
            let mut dts = 0u64;
            for (ci, c) in t.chunks.iter().enumerate() {
                let mut off = rel[ti][ci];
                for _ in 0..*c {
                    let s = &t.samples[k];
                    out.push(Expect {
                        rel_offset: off,
                        bytes: if with_payload { sample_bytes(t.id, k, s.size) } else { vec![] },
                        start: dts,
                        duration: s.delta,
                        cts: if t.ctts.is_some() { s.cts } else { 0 },
                        sync: if t.stss { s.sync } else { true },
                    });
                    off += s.size as u64;
                    dts += s.delta as u64;
                    k += 1;
                }
            }
            out
        })
        .collect()
}

pub fn sample_entry(codec: Codec, w: u16, h: u16) -> Node {
    match codec {
        Codec::Avc => avc1(&Visual::new(w, h), &AvcC { configuration_version: 1, profile: 66, compat: 0xc0, level: 30, length_size_minus_one: 3, sps: vec![vec![0x67, 66, 0xc0, 30, 0xd9]], pps: vec![vec![0x68, 0xce, 0x3c, 0x80]] }),
        Codec::Hevc => hev1(
            &Visual::new(w, h),
            &HvcC { configuration_version: 1, profile_space: 0, tier_flag: false, profile_idc: 1, compat_flags: 0x60000000, constraint_flags: 0x900000000000, level_idc: 93, min_spatial_segmentation_idc: 0, parallelism_type: 0, chroma_format: 1, bit_depth_luma_minus8: 0, bit_depth_chroma_minus8: 0, avg_frame_rate: 0, constant_frame_rate: 0, num_temporal_layers: 1, temporal_id_nested: true, length_size_minus_one: 3, arrays: vec![(true, 32, vec![vec![0x40, 1, 0x0c]]), (true, 33, vec![vec![0x42, 1, 1, 2]]), (false, 34, vec![vec![0x44, 1], vec![0x44, 2, 3]])] },
        ),
        Codec::Vp9 => vp09(&Visual::new(w, h), &VpcC { version: 1, flags: 0, profile: 0, level: 0x1f, bit_depth: 8, chroma_subsampling: 1, full_range: false, colour_primaries: 1, transfer: 1, matrix: 1, init_data: vec![] }),
        Codec::Aac => mp4a(
            &Audio { data_reference_index: 1, channelcount: 2, samplesize: 16, samplerate: 48000 << 16, qt_version: 0 },
            Some(&Esds { version: 0, flags: 0, es_id: 1, object_type_indication: 0x40, stream_type: 5, up_stream: false, buffer_size_db: 0, max_bitrate: 128000, avg_bitrate: 128000, audio_object_type: 2, freq_index: 3, frequency: 0, chan_conf: 2, len_bytes: 1 }),
        ),
        Codec::Tx3g => tx3g(&Tx3g { data_reference_index: 1, display_flags: 0, h_just: 1, v_just: -1, bg: [0, 0, 0, 255], box_record: [0, 0, 0, 0], style: [0, 0, 0, 0, 0, 1, 0, 16, 255, 255, 255, 255] }),
    }
}

pub fn handler_of(codec: Codec) -> (&'static [u8; 4], &'static str) {
    match codec {
        Codec::Avc | Codec::Hevc | Codec::Vp9 => (b"vide", "VideoHandler"),
        Codec::Aac => (b"soun", "SoundHandler"),
        Codec::Tx3g => (b"sbtl", "SubtitleHandler"),
    }
}

pub fn stbl_of(t: &LTrack, rel: &[u64]) -> Node {
    let n = t.samples.len();
    let mut kids = vec![stsd(sample_entry(t.codec, 320, 240))];
    let deltas: Vec<u32> = t.samples.iter().map(|s| s.delta).collect();
    kids.push(stts(&runs(&deltas, t.stts_split).iter().map(|&(s, l)| (l as u32, deltas[s])).collect::<Vec<_>>()));
    if let Some(v) = t.ctts {
        let cts: Vec<i32> = t.samples.iter().map(|s| s.cts).collect();
        kids.push(ctts(v, &runs(&cts, t.ctts_split).iter().map(|&(s, l)| (l as u32, cts[s])).collect::<Vec<_>>()));
    }
    if t.stss {
        kids.push(stss(&t.samples.iter().enumerate().filter(|(_, s)| s.sync).map(|(i, _)| i as u32 + 1).collect::<Vec<_>>()));
    }
    kids.push(stsc(&runs(&t.chunks, t.stsc_split).iter().map(|&(s, _)| (s as u32 + 1, t.chunks[s], 1)).collect::<Vec<_>>()));
    if t.const_size && n > 0 {
        kids.push(stsz(t.samples[0].size, n as u32, &[]));
    } else {
        kids.push(stsz(0, n as u32, &t.samples.iter().map(|s| s.size).collect::<Vec<_>>()));
    }
    kids.push(chunk_offsets(t.co64, "mdat", rel.to_vec()));
    let unknown = |i: u8| Node::leaf(b"sbgp", vec![0, 0, 0, 0, b'r', b'o', b'l', b'l', 0, 0, 0, 1, 0, 0, 0, i as u8, 0, 0, 0, 1]);
    let optional = |n: &Node| &n.cc == b"ctts" || &n.cc == b"stss";
    match t.stbl_order {
        1 => {
            let (opt, mut rest): (Vec<Node>, Vec<Node>) = kids.into_iter().partition(|n| optional(n));
            rest.push(unknown(1));
            rest.extend(opt);
            kids = rest;
        }
        2 => kids.reverse(),
        3 => {
            let (mut opt, rest): (Vec<Node>, Vec<Node>) = kids.into_iter().partition(|n| optional(n));
            opt.extend(rest);
            kids = opt;
        }
        4 => {
            let mut v = vec![unknown(0)];
            for (i, k) in kids.into_iter().enumerate() {
                v.push(k);
                v.push(unknown(i as u8 + 1));
            }
            kids = v;
        }
        _ => {}
    }
    Node::kids(b"stbl", kids)
}

pub fn trak_of(t: &LTrack, movie_ts: u32, rel: &[u64], force_v1: bool) -> Node {
    let media_dur: u64 = t.samples.iter().map(|s| s.delta as u64).sum();
    let movie_dur = if t.timescale == 0 { 0 } else { (media_dur as u128 * movie_ts as u128 / t.timescale as u128) as u64 };
    let (h, hname) = handler_of(t.codec);
    let is_video = matches!(t.codec, Codec::Avc | Codec::Hevc | Codec::Vp9);
    let mut tk = Tkhd::new(t.id, movie_dur, if is_video { 320 } else { 0 }, if is_video { 240 } else { 0 });
    let mut md = Mdhd::new(t.timescale, media_dur);
    if force_v1 {
        tk.version = 1;
        md.version = 1;
    }
    let mut kids = vec![tkhd(&tk)];
    if let Some(v) = t.edts {
        kids.push(edts(Some(elst(v, 0, &[ElstEntry { segment_duration: movie_dur, media_time: 0, rate_int: 1, rate_frac: 0 }]))));
    }
    let mut minf = vec![];
    match t.codec {
        Codec::Aac => minf.push(smhd(0)),
        Codec::Tx3g => {}
        _ => minf.push(vmhd(1, 0, [0, 0, 0])),
    }
    minf.push(dinf());
    minf.push(stbl_of(t, rel));
    kids.push(Node::kids(b"mdia", vec![mdhd(&md), hdlr(0, 0, h, hname), Node::kids(b"minf", minf)]));
    Node::kids(b"trak", kids)
}

pub fn nodes(m: &LMovie) -> Vec<Node> {
    nodes_opt(m, true)
}

pub fn nodes_opt(m: &LMovie, with_payload: bool) -> Vec<Node> {
    let (rel, payload) = layout_opt(m, with_payload);
    let mut moov_kids = vec![];
    let longest = m
        .tracks
        .iter()
        .map(|t| {
            let d: u64 = t.samples.iter().map(|s| s.delta as u64).sum();
            if t.timescale == 0 {
                0
            } else {
                (d as u128 * m.timescale as u128 / t.timescale as u128) as u64
            }
        })
        .max()
        .unwrap_or(0);
    let mut mv = Mvhd::new(m.timescale, longest, m.tracks.iter().map(|t| t.id).max().unwrap_or(0) + 1);
    if m.force_v1 {
        mv.version = 1;
    }
    moov_kids.push(mvhd(&mv));
    for (ti, t) in m.tracks.iter().enumerate() {
        moov_kids.push(trak_of(t, m.timescale, &rel[ti], m.force_v1));
    }
    moov_kids.extend(m.moov_extra.iter().cloned());
    let moov = Node::kids(b"moov", moov_kids);
    let ft = ftyp(*b"isom", 512, &[*b"isom", *b"iso2", *b"mp41"]);
    let md = mdat(payload).with_large(m.large_mdat).with_open_end(m.mdat_open_ended);
    assert!(!m.mdat_open_ended || (!m.mdat_first && m.top_back.is_empty()));
    let mut v = vec![ft];
    v.extend(m.top_front.iter().cloned());
    if m.mdat_first {
        v.push(md);
        v.push(moov);
    } else {
        v.push(moov);
        v.push(md);
    }
    v.extend(m.top_back.iter().cloned());
    v
}

/// Serialise; returns (file bytes, absolute position of the mdat payload).
pub fn encode(m: &LMovie) -> (Vec<u8>, u64) {
    let (b, a) = serialize(&nodes(m));
    (b, a["mdat"].1)
}
