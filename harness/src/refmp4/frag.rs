//! Logical fragmented movies (ISO/IEC 14496-12 §8.8; REFSPEC §6) — reference encoding and expectations.

use super::build::*;
use super::movie::{handler_of, sample_bytes, sample_entry, Codec, LSample};
use super::tree::*;
use std::sync::Arc;

#[derive(Clone, Copy, Debug, PartialEq, Eq)]
pub enum Base {
    /// tfhd carries base_data_offset, pointing at: the moof start (true) or the run's own data (false)
    Explicit { at_moof: bool },
    /// tfhd carries base_data_offset AND sets the default-base-is-moof flag: the explicit offset wins
    ExplicitWithMoofFlag { at_moof: bool },
    DefaultBaseIsMoof,
    Neither,
}

impl Base {
    /// Some(at_moof) when the tfhd carries an explicit base data offset
    pub fn explicit(&self) -> Option<bool> {
        match self {
            Base::Explicit { at_moof } | Base::ExplicitWithMoofFlag { at_moof } => Some(*at_moof),
            _ => None,
        }
    }
    pub fn moof_flag(&self) -> bool {
        matches!(self, Base::DefaultBaseIsMoof | Base::ExplicitWithMoofFlag { .. })
    }
}

#[derive(Clone, Debug)]
pub struct LRun {
    pub track_id: u32,
    pub base: Base,
    pub frag_default_duration: Option<u32>,
    pub per_sample_durations: bool,
    pub cts_version: Option<u8>,
    /// trun carries data_offset (must be true unless base = Explicit{at_moof:false})
    pub data_offset: bool,
    /// run data lives in an mdat *before* its moof (negative data offset)
    pub data_before_moof: bool,
    pub tfdt_version: u8,
    pub base_time: u64,
    pub samples: Vec<LSample>,
    /// 0 = no sample flags, 1 = first_sample_flags, 2 = per-sample flags
    pub flags_mode: u8,
    /// the track fragment carries no run at all (tfhd says duration-is-empty); `samples` must be empty
    pub no_trun: bool,
}

#[derive(Clone, Debug)]
pub struct LFragTrack {
    pub id: u32,
    pub codec: Codec,
    pub timescale: u32,
    pub trex_default_duration: u32,
}

#[derive(Clone, Debug)]
pub struct LFragMovie {
    pub movie_ts: u32,
    pub tracks: Vec<LFragTrack>,
    pub fragments: Vec<Vec<LRun>>,
    pub mehd: Option<u8>,
    /// use the 64-bit header form for every moof
    pub large_moof: bool,
    /// sample payloads are not materialised (sizes beyond any real file): only counts and offsets are meaningful
    pub offsets_only: bool,
    /// uninterpreted boxes among the fragment boxes: bit 0 a `uuid` box in every traf before its run, bit 1 a `uuid`
    /// box at the top level behind every fragment's media data, bit 2 a `uuid` box in every moof before its trafs,
    /// bit 3 a `free` box at the end of every traf
    pub fillers: u8,
}

#[derive(Clone, Debug, PartialEq, Eq)]
pub struct FExpect {
    /// (anchor label, offset inside that box's payload)
    pub anchor: String,
    pub rel: u64,
    pub bytes: Vec<u8>,
    pub start: u64,
    pub duration: u32,
    pub cts: i32,
}

pub fn init_nodes(m: &LFragMovie) -> Vec<Node> {
    let mut moov = vec![mvhd(&Mvhd::new(m.movie_ts, 0, m.tracks.len() as u32 + 1))];
    for t in m.tracks.iter() {
        let (h, hn) = handler_of(t.codec);
        let is_video = matches!(t.codec, Codec::Avc | Codec::Hevc | Codec::Vp9);
        let mut minf = vec![];
        match t.codec {
            Codec::Aac => minf.push(smhd(0)),
            Codec::Tx3g => {}
            _ => minf.push(vmhd(1, 0, [0; 3])),
        }
        minf.push(dinf());
        minf.push(Node::kids(b"stbl", vec![stsd(sample_entry(t.codec, 320, 240)), stts(&[]), stsc(&[]), stsz(0, 0, &[]), stco_abs(&[])]));
        moov.push(Node::kids(
            b"trak",
            vec![tkhd(&Tkhd::new(t.id, 0, if is_video { 320 } else { 0 }, if is_video { 240 } else { 0 })), Node::kids(b"mdia", vec![mdhd(&Mdhd::new(t.timescale, 0)), hdlr(0, 0, h, hn), Node::kids(b"minf", minf)])],
        ));
    }
    let mut mvex = vec![];
    if let Some(v) = m.mehd {
        mvex.push(mehd(v, 0));
    }
    for t in m.tracks.iter() {
        mvex.push(trex(t.id, 1, t.trex_default_duration, 0, 0));
    }
    moov.push(Node::kids(b"mvex", mvex));
    vec![ftyp(*b"iso5", 1, &[*b"iso5", *b"dash"]), Node::kids(b"moov", moov)]
}

/// Nodes of the media part and the expectations per track id (in file order).
pub fn media_nodes(m: &LFragMovie) -> (Vec<Node>, Vec<(u32, Vec<FExpect>)>) {
    let mut nodes = vec![];
    let mut exp: Vec<(u32, Vec<FExpect>)> = m.tracks.iter().map(|t| (t.id, vec![])).collect();
    let mut counters: Vec<usize> = vec![0; m.tracks.len()];
    for (fi, runs) in m.fragments.iter().enumerate() {
        let mut pre: Vec<u8> = vec![0xAA, 0xBB]; // lead bytes so that run data never starts the payload
        let mut post: Vec<u8> = vec![0xCC];
        let moof_label = format!("moof{}", fi);
        let pre_label = format!("pre{}", fi);
        let post_label = format!("post{}", fi);
        let mut trafs = vec![];
        for r in runs.iter() {
            let ti = m.tracks.iter().position(|t| t.id == r.track_id).expect("run of unknown track");
            let tr = &m.tracks[ti];
            let (label, buf) = if r.data_before_moof { (pre_label.clone(), &mut pre) } else { (post_label.clone(), &mut post) };
            let run_rel = buf.len() as u64;
            let mut t_acc = r.base_time;
            let mut off = run_rel;
            for s in r.samples.iter() {
                let k = counters[ti];
                counters[ti] += 1;
                let bytes = if m.offsets_only { vec![] } else { sample_bytes(r.track_id, k, s.size) };
                buf.extend_from_slice(&bytes);
                let dur = if r.per_sample_durations { s.delta } else { r.frag_default_duration.unwrap_or(tr.trex_default_duration) };
                exp[ti].1.push(FExpect { anchor: label.clone(), rel: off, bytes, start: t_acc, duration: dur, cts: if r.cts_version.is_some() { s.cts } else { 0 } });
                off += s.size as u64;
                t_acc += dur as u64;
            }
            // tfhd
            let base = r.base;
            let (ml, dl) = (moof_label.clone(), label.clone());
            let th = Tfhd {
                version: 0,
                extra_flags: (if base.moof_flag() { 0x020000 } else { 0 }) | (if r.no_trun { 0x010000 } else { 0 }),
                track_id: r.track_id,
                base_data_offset: base.explicit().map(|_| 0),
                sample_description_index: None,
                default_sample_duration: r.frag_default_duration,
                default_sample_size: None,
                default_sample_flags: None,
            };
            let tfhd_node = Node::dynamic(
                b"tfhd",
                Arc::new(move |a: &Anchors| {
                    let mut t = th.clone();
                    if let Some(at_moof) = base.explicit() {
                        let moof = a.get(&ml).map(|x| x.0).unwrap_or(0);
                        let data = a.get(&dl).map(|x| x.1).unwrap_or(0) + run_rel;
                        t.base_data_offset = Some(if at_moof { moof } else { data });
                    }
                    t.payload()
                }),
            );
            // trun
            let tn = Trun {
                version: r.cts_version.unwrap_or(0),
                sample_count: r.samples.len() as u32,
                data_offset: if r.data_offset { Some(0) } else { None },
                first_sample_flags: if r.flags_mode == 1 { Some(0x0200_0000) } else { None },
                durations: if r.per_sample_durations { Some(r.samples.iter().map(|s| s.delta).collect()) } else { None },
                sizes: Some(r.samples.iter().map(|s| s.size).collect()),
                flags_: if r.flags_mode == 2 { Some(r.samples.iter().enumerate().map(|(i, _)| if i == 0 { 0x0200_0000 } else { 0x0101_0000 }).collect()) } else { None },
                cts: r.cts_version.map(|_| r.samples.iter().map(|s| s.cts).collect()),
            };
            let (ml, dl) = (moof_label.clone(), label.clone());
            let trun_node = Node::dynamic(
                b"trun",
                Arc::new(move |a: &Anchors| {
                    let mut t = tn.clone();
                    if t.data_offset.is_some() {
                        let moof = a.get(&ml).map(|x| x.0).unwrap_or(0) as i64;
                        let data = (a.get(&dl).map(|x| x.1).unwrap_or(0) + run_rel) as i64;
                        let b = match base.explicit() {
                            Some(false) => data,
                            _ => moof,
                        };
                        t.data_offset = Some((data - b) as i32);
                    }
                    t.payload()
                }),
            );
            let uuid_box = || Node::leaf(b"uuid", (0..20u8).map(|i| 0xa0 + i).collect());
            let mut tk = vec![tfhd_node, tfdt(r.tfdt_version, r.base_time)];
            if m.fillers & 1 != 0 {
                tk.push(uuid_box());
            }
            if r.no_trun {
                assert!(r.samples.is_empty());
            } else {
                tk.push(trun_node);
            }
            if m.fillers & 8 != 0 {
                tk.push(Node::leaf(b"free", vec![0x33; 5]));
            }
            trafs.push(Node::kids(b"traf", tk));
        }
        let mut kids = vec![mfhd(fi as u32 + 1)];
        if m.fillers & 4 != 0 {
            kids.push(Node::leaf(b"uuid", (0..17u8).map(|i| 0xc0 + i).collect()));
        }
        kids.extend(trafs);
        nodes.push(Node::leaf(b"mdat", pre).labelled(&pre_label));
        nodes.push(Node::kids(b"moof", kids).labelled(&moof_label).with_large(m.large_moof));
        nodes.push(Node::leaf(b"mdat", post).labelled(&post_label));
        if m.fillers & 2 != 0 {
            nodes.push(Node::leaf(b"uuid", (0..24u8).map(|i| 0xe0 + i).collect()));
        }
    }
    (nodes, exp)
}
