//! C10 — I/O failures surface as errors; short transfers and interrupted calls are transparent.
//! Fault enumeration: every stream-call index x every fault kind, for every explored file / history.

use crate::common::*;
use crate::e3::{canned, muxed_baseline};
use crate::env::stream::{CallKind, Ctl, Dev, SR, SW};
use crate::hist::Local;
use crate::mux::*;
use crate::probe::Prober;
use mp4::*;
use rayon::prelude::*;
use serde_json::{json, Value};

struct RFile {
    name: String,
    bytes: Vec<u8>,
    init: Option<Vec<u8>>,
    pairs: bool,
}

fn rfiles(tier: Tier, seed: u64) -> Vec<RFile> {
    let th = tier == Tier::Thorough;
    let mut v = vec![
        RFile { name: "mux:avc+aac".into(), bytes: muxed_baseline(seed, &[Kind::Avc, Kind::Aac]), init: None, pairs: th },
        RFile { name: "mux:hevc".into(), bytes: muxed_baseline(seed, &[Kind::Hevc]), init: None, pairs: false },
        RFile { name: "mux:vp9".into(), bytes: muxed_baseline(seed, &[Kind::Vp9]), init: None, pairs: false },
        RFile { name: "mux:ttxt".into(), bytes: muxed_baseline(seed, &[Kind::Ttxt]), init: None, pairs: false },
        RFile { name: "canned:minimal.mp4".into(), bytes: canned("minimal.mp4"), init: None, pairs: false },
        RFile { name: "canned:minimal_init.mp4".into(), bytes: canned("minimal_init.mp4"), init: None, pairs: true },
        RFile { name: "canned:minimal_fragment.m4s".into(), bytes: canned("minimal_fragment.m4s"), init: Some(canned("minimal_init.mp4")), pairs: true },
        RFile { name: "canned:extended_audio_object_type.mp4".into(), bytes: canned("extended_audio_object_type.mp4"), init: None, pairs: false },
    ];
    for (name, bytes) in crate::refmp4::kitchen::fault_files(tier) {
        v.push(RFile { name, bytes, init: None, pairs: false });
    }
    let (i5, s5) = crate::refmp4::kitchen::k5();
    v.push(RFile { name: "K5:segment against init".into(), bytes: s5, init: Some(i5), pairs: false });
    v.push(RFile { name: "K6:trun shapes".into(), bytes: crate::refmp4::kitchen::k6(), init: None, pairs: false });
    v
}

fn open_with<'a>(f: &'a RFile, init: Option<&Mp4Reader<std::io::Cursor<&[u8]>>>, ctl: &'a Ctl) -> std::result::Result<mp4::Result<Mp4Reader<SR<'a>>>, String> {
    let n = f.bytes.len() as u64;
    guard(|| match init {
        None => Mp4Reader::read_header(SR::new(&f.bytes, ctl), n),
        Some(i) => i.read_fragment_header(SR::new(&f.bytes, ctl), n),
    })
}

fn faults_for(kind: CallKind) -> Vec<Dev> {
    match kind {
        CallKind::Read => vec![Dev::Error, Dev::Zero],
        CallKind::Write => vec![Dev::Error, Dev::Zero],
        CallKind::Seek | CallKind::Flush => vec![Dev::Error],
    }
}

fn transparent_devs(kind: CallKind, len: u32) -> Vec<Dev> {
    if kind == CallKind::Seek || kind == CallKind::Flush {
        return vec![];
    }
    let mut v = vec![Dev::Interrupted];
    let mut ns = vec![1usize, (len / 2) as usize, len.saturating_sub(1) as usize];
    ns.retain(|&n| n >= 1 && (n as u32) < len);
    ns.sort();
    ns.dedup();
    v.extend(ns.into_iter().map(Dev::Short));
    v
}

fn is_io_error<T>(r: &std::result::Result<mp4::Result<T>, String>) -> bool {
    matches!(r, Ok(Err(Error::IoError(_))))
}

fn describe<T>(r: &std::result::Result<mp4::Result<T>, String>) -> String {
    match r {
        Ok(Ok(_)) => "Ok".into(),
        Ok(Err(e)) => format!("Err({:?})", e),
        Err(p) => format!("PANIC {}", short_loc(p)),
    }
}

/// Reader side: faults during open and during each sample read; transparency of short/interrupted transfers.
fn reader_side(tier: Tier, seed: u64, l: &mut Local) {
    let files = rfiles(tier, seed);
    for f in files.iter() {
        let init_r = f.init.as_ref().map(|i| open(i).unwrap_or_else(|e| machinery_failure(&format!("init: {}", e))));
        // clean run: call kinds during open, digest of everything afterwards
        let ctl = Ctl::new();
        ctl.kinds_on.set(true);
        let mut r0 = match open_with(f, init_r.as_ref(), &ctl) {
            Ok(Ok(r)) => r,
            o => machinery_failure(&format!("C10 baseline {} does not open: {}", f.name, describe(&o))),
        };
        let open_calls: Vec<(CallKind, u32)> = ctl.kinds.borrow().clone();
        let n_open = open_calls.len() as u64;
        let mut p0 = Prober::new(Some(&ctl), true);
        p0.probe(&mut r0, true);
        let clean_digest = p0.obs.digest.clone();
        let all_calls: Vec<(CallKind, u32)> = ctl.kinds.borrow().clone();
        drop(r0);

        // (1) every fault at every stream call of open
        let res: Vec<Local> = (0..open_calls.len())
            .into_par_iter()
            .map(|k| {
                let init_r = f.init.as_ref().map(|i| open(i).unwrap());
                let mut l = Local::default();
                for d in faults_for(open_calls[k].0) {
                    let ctl = Ctl::new();
                    ctl.plan.borrow_mut().push((k as u64, d));
                    let r = open_with(f, init_r.as_ref(), &ctl);
                    l.evaluations += 1;
                    l.transitions += ctl.ops.get();
                    l.validated += 1;
                    l.nontrivial += 1;
                    if ctl.fired.get() != 1 {
                        machinery_failure("C10: planned fault did not fire (nondeterministic stream-call sequence?)");
                    }
                    if is_io_error(&r) {
                        l.outcome(&format!("open:{:?}:{}->IoError", open_calls[k].0, d.name()));
                    } else {
                        l.outcome("open:fault_not_surfaced");
                        l.violations.push(
                            Violation::new("C10", "fault_during_open_not_surfaced_as_io_error", json!({"engine": "fault", "file": f.name, "op": "open", "stream_call": k, "call_kind": format!("{:?}", open_calls[k].0), "fault": d.name()}))
                                .tag(&d.name())
                                .obs(json!(describe(&r)))
                                .exp(json!("Err(IoError)")),
                        );
                    }
                }
                l
            })
            .collect();
        for x in res {
            merge(l, x);
        }

        // (2) every fault at every stream call of every read_sample (fresh open each time; the fault index is relative to the end of open)
        let ids: Vec<(u32, u32)> = {
            let ctl = Ctl::new();
            let r = open_with(f, init_r.as_ref(), &ctl).unwrap().unwrap();
            let mut v = vec![];
            for id in sorted_track_ids(&r) {
                let c = r.sample_count(id).unwrap_or(0).min(64);
                for k in 1..=c {
                    v.push((id, k));
                }
            }
            v
        };
        let res: Vec<Local> = ids
            .par_iter()
            .map(|&(tid, sid)| {
                let init_r = f.init.as_ref().map(|i| open(i).unwrap());
                let mut l = Local::default();
                // clean
                let ctl = Ctl::new();
                let mut r = open_with(f, init_r.as_ref(), &ctl).unwrap().unwrap();
                ctl.kinds_on.set(true);
                let clean = guard(|| r.read_sample(tid, sid));
                let calls = ctl.kinds.borrow().clone();
                if !matches!(clean, Ok(Ok(Some(_)))) {
                    return l; // not a readable sample on the clean stream (outside this clause)
                }
                for (k, (kind, _)) in calls.iter().enumerate() {
                    for d in faults_for(*kind) {
                        let ctl = Ctl::new();
                        let mut r = open_with(f, init_r.as_ref(), &ctl).unwrap().unwrap();
                        ctl.plan.borrow_mut().push((ctl.ops.get() + k as u64, d));
                        let got = guard(|| r.read_sample(tid, sid));
                        l.evaluations += 1;
                        l.validated += 1;
                        l.nontrivial += 1;
                        l.transitions += ctl.ops.get();
                        if ctl.fired.get() != 1 {
                            machinery_failure("C10: planned fault did not fire in read_sample");
                        }
                        if is_io_error(&got) {
                            l.outcome(&format!("read_sample:{:?}:{}->IoError", kind, d.name()));
                        } else {
                            l.outcome("read_sample:fault_not_surfaced");
                            l.violations.push(
                                Violation::new("C10", "fault_during_read_sample_not_surfaced_as_io_error", json!({"engine": "fault", "file": f.name, "op": format!("read_sample({},{})", tid, sid), "stream_call": k, "call_kind": format!("{:?}", kind), "fault": d.name()}))
                                    .tag(&d.name())
                                    .obs(json!(describe(&got.map(|r| r.map(|_| ())))))
                                    .exp(json!("Err(IoError)")),
                            );
                        }
                    }
                }
                l
            })
            .collect();
        for x in res {
            merge(l, x);
        }

        // (3) transparency: single deviations everywhere (open + whole call suite), pairs on selected files, two extreme schedules
        let judge = |plan: Vec<(u64, Dev)>, one_byte: bool, intr: bool, l: &mut Local| -> u64 {
            let init_r = f.init.as_ref().map(|i| open(i).unwrap());
            let ctl = Ctl::new();
            *ctl.plan.borrow_mut() = plan.clone();
            ctl.one_byte_everywhere.set(one_byte);
            ctl.interrupt_before_every_call.set(intr);
            let r = open_with(f, init_r.as_ref(), &ctl);
            l.evaluations += 1;
            l.validated += 1;
            let case = || json!({"engine": "transparency", "file": f.name, "plan": plan.iter().map(|(k, d)| json!([k, d.name()])).collect::<Vec<_>>(), "one_byte_everywhere": one_byte, "interrupt_before_every_call": intr});
            match r {
                Ok(Ok(mut r)) => {
                    let mut p = Prober::new(Some(&ctl), true);
                    p.probe(&mut r, true);
                    l.transitions += ctl.ops.get();
                    if p.obs.digest != clean_digest {
                        let diff = p.obs.digest.iter().zip(clean_digest.iter()).find(|(a, b)| a != b).map(|(a, b)| json!({"call": a.0, "got": a.1, "clean": b.1}));
                        l.outcome("transparency:DIFFERENT");
                        l.violations.push(Violation::new("C10", "short_or_interrupted_transfer_changes_results", case()).obs(json!(diff)));
                    } else {
                        l.outcome("transparency:identical");
                    }
                }
                o => {
                    l.outcome("transparency:open_failed");
                    l.violations.push(Violation::new("C10", "short_or_interrupted_transfer_breaks_open", case()).obs(json!(describe(&o))));
                }
            }
            ctl.ops.get()
        };
        judge(vec![], true, false, l);
        judge(vec![], false, true, l);
        judge(vec![], true, true, l);
        l.nontrivial += 3;
        let single: Vec<(u64, Dev)> = all_calls.iter().enumerate().flat_map(|(k, (kind, len))| transparent_devs(*kind, *len).into_iter().map(move |d| (k as u64, d))).collect();
        let res: Vec<Local> = single
            .par_iter()
            .map(|&(k, d)| {
                let mut l = Local::default();
                let total = judge(vec![(k, d)], false, false, &mut l);
                l.nontrivial += 1;
                if f.pairs && k < n_open {
                    // second deviation at every later call of open (indices of the deviated execution)
                    for k2 in (k + 1)..total.min(n_open + 2) {
                        for d2 in [Dev::Interrupted, Dev::Short(1), Dev::Short(3)] {
                            judge(vec![(k, d), (k2, d2)], false, false, &mut l);
                            l.nontrivial += 1;
                        }
                    }
                }
                l
            })
            .collect();
        for x in res {
            merge(l, x);
        }
    }
}

fn merge(a: &mut Local, b: Local) {
    a.evaluations += b.evaluations;
    a.transitions += b.transitions;
    a.validated += b.validated;
    a.nontrivial += b.nontrivial;
    for (k, v) in b.outcomes {
        *a.outcomes.entry(k).or_insert(0) += v;
    }
    a.violations.merge(b.violations);
    if a.samples.len() < 4 {
        a.samples.extend(b.samples);
    }
}

/// Run a history on a scripted writer; returns (call results, ops at the start of each call, output).
fn mux_scripted(ctl: &Ctl, seed: u64, movie: &MovieSpec, hist: &[Op]) -> (Vec<std::result::Result<mp4::Result<()>, String>>, Vec<u64>, Option<Vec<u8>>) {
    mux_scripted_opt(ctl, seed, movie, hist, true)
}

/// `stop_on_failure = false`: the caller carries on after a failed call (every later call is still made).
fn mux_scripted_opt(ctl: &Ctl, seed: u64, movie: &MovieSpec, hist: &[Op], stop_on_failure: bool) -> (Vec<std::result::Result<mp4::Result<()>, String>>, Vec<u64>, Option<Vec<u8>>) {
    let mut results = vec![];
    let mut starts = vec![];
    starts.push(ctl.ops.get());
    let cfg = movie.config();
    let w = guard(|| Mp4Writer::write_start(SW::new(ctl), &cfg));
    let mut wr = match w {
        Ok(Ok(w)) => {
            results.push(Ok(Ok(())));
            w
        }
        Ok(Err(e)) => {
            results.push(Ok(Err(e)));
            return (results, starts, None);
        }
        Err(p) => {
            results.push(Err(p));
            return (results, starts, None);
        }
    };
    for t in movie.tracks.iter() {
        starts.push(ctl.ops.get());
        let tc = t.track_config().unwrap();
        let r = guard(|| wr.add_track(&tc));
        let failed = !matches!(r, Ok(Ok(())));
        results.push(r);
        if failed && stop_on_failure {
            return (results, starts, None);
        }
    }
    let mut written = vec![0usize; movie.tracks.len()];
    for op in hist {
        starts.push(ctl.ops.get());
        let k = if op.track >= 1 && op.track as usize <= written.len() {
            written[op.track as usize - 1] += 1;
            written[op.track as usize - 1] - 1
        } else {
            0
        };
        let s = Mp4Sample { start_time: 0, duration: op.dur, rendering_offset: op.off, is_sync: op.sync, bytes: Bytes::from(payload(seed, k, op.track, op.size)) };
        let r = guard(|| wr.write_sample(op.track, &s));
        let failed = !matches!(r, Ok(Ok(())));
        results.push(r);
        if failed && stop_on_failure {
            return (results, starts, None);
        }
    }
    starts.push(ctl.ops.get());
    let r = guard(|| wr.write_end());
    let failed = !matches!(r, Ok(Ok(())));
    results.push(r);
    if failed {
        return (results, starts, None);
    }
    starts.push(ctl.ops.get());
    let out = wr.into_writer().data;
    (results, starts, Some(out))
}

/// For C17 ("no call of any sequence panics"): every muxing history of the fault sweep with one write/seek failure at
/// every stream-call index, the caller carrying on with the remaining calls.  Returns (cases run, descriptions of the
/// cases in which a call AFTER the failed one panicked).
pub fn calls_after_stream_failure(tier: Tier, seed: u64) -> (u64, Vec<Value>) {
    let mut bad = vec![];
    let mut n = 0u64;
    for (name, movie, hist) in writer_histories(tier) {
        let ctl0 = Ctl::new();
        ctl0.kinds_on.set(true);
        let _ = mux_scripted(&ctl0, seed, &movie, &hist);
        let calls = ctl0.kinds.borrow().clone();
        for k in 0..calls.len() {
            for d in faults_for(calls[k].0) {
                let ctl = Ctl::new();
                ctl.plan.borrow_mut().push((k as u64, d));
                let (r, _, _) = mux_scripted_opt(&ctl, seed, &movie, &hist, false);
                n += 1;
                let first_fail = r.iter().position(|x| !matches!(x, Ok(Ok(()))));
                if let Some(f) = first_fail {
                    if let Some((j, p)) = r.iter().enumerate().skip(f + 1).find_map(|(j, x)| x.as_ref().err().map(|p| (j, p.clone()))) {
                        bad.push(json!({"engine": "calls_after_stream_failure", "history": name, "config": movie.to_json(), "ops": hist_json(&hist), "stream_call": k, "fault": d.name(), "failed_call_index": f, "panicking_call_index": j, "panic": short_loc(&p)}));
                    }
                }
            }
        }
    }
    (n, bad)
}

fn writer_histories(tier: Tier) -> Vec<(String, MovieSpec, Vec<Op>)> {
    let mut v = vec![];
    for k in ALL_KINDS {
        let m = MovieSpec::new(1000, vec![TrackSpec::new(k, 1000)]);
        // flush inside write_sample (dur = T), then a chunk flushed only by write_end
        let h = vec![
            Op { track: 1, size: 3, dur: 1000, off: 0, sync: true },
            Op { track: 1, size: 2, dur: 500, off: 5, sync: false },
            Op { track: 1, size: 0, dur: 100, off: 0, sync: false },
        ];
        v.push((format!("single:{}", k.name()), m, h));
    }
    let two = MovieSpec::new(1000, vec![TrackSpec::new(Kind::Avc, 1000), TrackSpec::new(Kind::Aac, 48000)]);
    let mut h = vec![];
    for i in 0..(if tier == Tier::Thorough { 6 } else { 3 }) {
        h.push(Op { track: 1, size: 4 + i, dur: 600, off: if i % 2 == 0 { 0 } else { 9 }, sync: i == 0 });
        h.push(Op { track: 2, size: 2, dur: 30000, off: 0, sync: true });
    }
    v.push(("two_tracks:avc+aac".into(), two, h));
    v
}

fn writer_side(tier: Tier, seed: u64, l: &mut Local) {
    for (name, movie, hist) in writer_histories(tier) {
        let ctl = Ctl::new();
        ctl.kinds_on.set(true);
        let (res, starts, out) = mux_scripted(&ctl, seed, &movie, &hist);
        let clean = match out {
            Some(o) if res.iter().all(|r| matches!(r, Ok(Ok(())))) => o,
            _ => machinery_failure(&format!("C10 writer baseline {} does not mux cleanly", name)),
        };
        let calls: Vec<(CallKind, u32)> = ctl.kinds.borrow().clone();
        let call_of = |k: u64| -> usize { starts.iter().rposition(|&s| s <= k).unwrap_or(0).min(res.len() - 1) };
        let lib_name = |j: usize| -> String {
            let nt = movie.tracks.len();
            if j == 0 {
                "write_start".into()
            } else if j <= nt {
                format!("add_track#{}", j)
            } else if j <= nt + hist.len() {
                format!("write_sample#{}", j - nt)
            } else {
                "write_end".into()
            }
        };
        // faults
        let resv: Vec<Local> = (0..calls.len())
            .into_par_iter()
            .map(|k| {
                let mut l = Local::default();
                for d in faults_for(calls[k].0) {
                    let ctl = Ctl::new();
                    ctl.plan.borrow_mut().push((k as u64, d));
                    let (r, _, out) = mux_scripted(&ctl, seed, &movie, &hist);
                    l.evaluations += 1;
                    l.validated += 1;
                    l.nontrivial += 1;
                    l.transitions += ctl.ops.get();
                    if ctl.fired.get() != 1 {
                        machinery_failure("C10: planned write fault did not fire");
                    }
                    let j = call_of(k as u64);
                    let ok = r.len() == j + 1 && is_io_error(&r[j]) && out.is_none();
                    if ok {
                        l.outcome(&format!("mux:{:?}:{}->IoError", calls[k].0, d.name()));
                    } else {
                        l.outcome("mux:fault_not_surfaced");
                        let obs: Vec<String> = r.iter().map(describe).collect();
                        l.violations.push(
                            Violation::new("C10", "fault_during_muxing_not_surfaced_as_io_error", json!({"engine": "fault", "history": name, "config": movie.to_json(), "ops": hist_json(&hist), "stream_call": k, "call_kind": format!("{:?}", calls[k].0), "fault": d.name(), "library_call": lib_name(j)}))
                                .tag(&d.name())
                                .obs(json!(obs))
                                .exp(json!(format!("{} returns Err(IoError)", lib_name(j)))),
                        );
                    }
                }
                l
            })
            .collect();
        for x in resv {
            merge(l, x);
        }
        // transparency
        let judge = |plan: Vec<(u64, Dev)>, one_byte: bool, intr: bool, l: &mut Local| -> u64 {
            let ctl = Ctl::new();
            *ctl.plan.borrow_mut() = plan.clone();
            ctl.one_byte_everywhere.set(one_byte);
            ctl.interrupt_before_every_call.set(intr);
            let (r, _, out) = mux_scripted(&ctl, seed, &movie, &hist);
            l.evaluations += 1;
            l.validated += 1;
            l.nontrivial += 1;
            l.transitions += ctl.ops.get();
            let same = out.as_ref().map(|o| *o == clean).unwrap_or(false);
            if same {
                l.outcome("mux_transparency:identical");
            } else {
                l.outcome("mux_transparency:DIFFERENT");
                let obs: Vec<String> = r.iter().map(describe).collect();
                l.violations.push(
                    Violation::new("C10", "short_or_interrupted_write_changes_output", json!({"engine": "transparency", "history": name, "config": movie.to_json(), "ops": hist_json(&hist), "plan": plan.iter().map(|(k, d)| json!([k, d.name()])).collect::<Vec<_>>(), "one_byte_everywhere": one_byte, "interrupt_before_every_call": intr}))
                        .obs(json!({"calls": obs, "output_len": out.map(|o| o.len()), "clean_len": clean.len()})),
                );
            }
            ctl.ops.get()
        };
        judge(vec![], true, false, l);
        judge(vec![], false, true, l);
        judge(vec![], true, true, l);
        let single: Vec<(u64, Dev)> = calls.iter().enumerate().flat_map(|(k, (kind, len))| transparent_devs(*kind, *len).into_iter().map(move |d| (k as u64, d))).collect();
        let pairs = tier == Tier::Thorough || name.starts_with("single:avc");
        let resv: Vec<Local> = single
            .par_iter()
            .map(|&(k, d)| {
                let mut l = Local::default();
                let total = judge(vec![(k, d)], false, false, &mut l);
                if pairs {
                    for k2 in (k + 1)..total {
                        for d2 in [Dev::Interrupted, Dev::Short(1)] {
                            judge(vec![(k, d), (k2, d2)], false, false, &mut l);
                        }
                    }
                }
                l
            })
            .collect();
        for x in resv {
            merge(l, x);
        }
    }
}

pub fn run(tier: Tier, seed: u64) -> i32 {
    let mut ev = Evidence::new("C10", tier, seed, "fault_enumeration");
    let rep = Reporter::new("C10");
    let mut l = Local::default();
    reader_side(tier, seed, &mut l);
    writer_side(tier, seed, &mut l);
    l.samples.push(json!({"file": "canned:minimal.mp4", "op": "open", "stream_call": 0, "fault": "error", "expect": "Err(IoError)"}));
    l.samples.push(json!({"history": "single:avc", "stream_call": 5, "fault": "zero", "expect": "the library call in progress returns Err(IoError)"}));
    l.samples.push(json!({"file": "mux:avc+aac", "schedule": "one byte per call everywhere", "expect": "digest identical to full-transfer run"}));
    ev.set("evaluations", json!(l.evaluations));
    ev.set("distinct_nontrivial", json!(l.nontrivial));
    ev.set("transitions", json!(l.transitions));
    ev.set("rule", json!("one case = one (file or muxing history, deviation plan) pair: plan = a fault (Err / Ok(0)) at exactly one stream-call index, or 1-2 transparent deviations (short transfer of 1, len/2, len-1 bytes; Interrupted) at given call indices, or one of three extreme schedules; every index of every operation is enumerated, plans are distinct by construction and each fires exactly once (asserted), so every case is non-trivial"));
    ev.set("outcome_classes", Value::Object(l.outcomes.iter().map(|(k, v)| (k.clone(), json!(v))).collect()));
    ev.set("exhaustive", json!(true));
    ev.set("bound", json!("1 fault per execution, every call index, kinds {read: Err, Ok(0); seek: Err; write: Err, Ok(0)}; transparency: all single deviations on every file/history (open + full call suite), all pairs on the files/histories marked for it, plus one-byte-everywhere, interrupted-before-every-call, and both"));
    ev.set("samples", Value::Array(l.samples.clone()));
    let v = std::mem::take(&mut l.violations);
    v.drain_into(&rep);
    conclude(&ev, &rep)
}
