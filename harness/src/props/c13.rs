//! C13 — 32-bit to 64-bit transitions in the muxer are lossless (E1 over a sparse stream, boundary values).

use crate::common::*;
use crate::env::sparse::Sparse;
use crate::hist::Local;
use crate::mux::*;
use crate::refmp4::parse::{top_level, tree, Src};
use crate::refmp4::validate::{validate, WSample};
use mp4::*;
use rayon::prelude::*;
use serde_json::{json, Value};
use std::io::{Seek, SeekFrom};

#[derive(Clone, Debug)]
pub struct BigCase {
    pub name: String,
    pub origin: u64,
    pub movie_ts: u32,
    pub tracks: Vec<(Kind, u32)>,
    /// (track, size, duration, rendering offset, sync)
    pub samples: Vec<(u32, u64, u32, i32, bool)>,
    pub heavy: bool,
}

const MIB64: u64 = 64 << 20;
const FTYP_LEN: u64 = 32; // 8 + 4 + 4 + 4 * 4 compatible brands
const TWO32: u64 = 1 << 32;

fn fill(track: u32, k: usize) -> u8 {
    ((track as usize * 37 + k * 11) % 250 + 3) as u8
}

fn volume(total: u64, track: u32, dur: u32) -> Vec<(u32, u64, u32, i32, bool)> {
    // `total` bytes as 64 MiB samples plus one remainder sample; each sample its own chunk (dur = T)
    let mut v = vec![];
    let mut left = total;
    while left > 2 * MIB64 {
        v.push((track, MIB64, dur, 0, true));
        left -= MIB64;
    }
    v.push((track, left, dur, 0, false));
    v
}

pub fn cases(tier: Tier) -> Vec<BigCase> {
    let th = tier == Tier::Thorough;
    let mut v = vec![];
    let kinds_vol: Vec<Kind> = if th { ALL_KINDS.to_vec() } else { vec![Kind::Avc] };
    for k in kinds_vol {
        // media data size (incl. its 16 header bytes) just below, at and above 2^32
        for d in [-2i64, -1, 0, 1] {
            let target = (TWO32 as i64 + d) as u64;
            v.push(BigCase { name: format!("mdat_size=2^32{:+}:{}", d, k.name()), origin: 0, movie_ts: 1000, tracks: vec![(k, 1000)], samples: volume(target - 16, 1, 1000), heavy: true });
        }
        // last chunk offset just below, at and above 2^32 (reached by volume)
        for d in [-1i64, 0, 1] {
            let target = (TWO32 as i64 + d) as u64;
            let mut s = volume(target - FTYP_LEN - 16, 1, 1000);
            s.push((1, 5, 1000, 3, true));
            s.push((1, 0, 10, 0, false));
            v.push(BigCase { name: format!("last_chunk_offset=2^32{:+}:{}", d, k.name()), origin: 0, movie_ts: 1000, tracks: vec![(k, 1000)], samples: s, heavy: true });
        }
    }
    // more than 4 GiB of equal-sized samples inside ONE chunk (durations far below the timescale): offsets inside the
    // chunk pass 2^32 while the chunk offset itself stays small
    {
        let mut s = vec![];
        for _ in 0..70 {
            s.push((1u32, MIB64, 1u32, 0i32, true));
        }
        s.push((1, MIB64, 1000, 0, true));
        // (all samples of one size: the table stays in its constant-size form)
        v.push(BigCase { name: "one_chunk_of_4.4GiB_equal_samples:avc".into(), origin: 0, movie_ts: 1000, tracks: vec![(Kind::Avc, 1000)], samples: s, heavy: true });
    }
    // two tracks, only the second one crosses
    {
        let mut s = vec![(1u32, 3u64, 1000u32, 0i32, true)];
        s.extend(volume(TWO32 - FTYP_LEN - 16 - 3 - 1, 2, 48000));
        s.push((1, 4, 1000, 0, false));
        s.push((2, 2, 48000, 0, true));
        s.push((1, 1, 1000, 0, false));
        v.push(BigCase { name: "two_tracks_second_crosses".into(), origin: 0, movie_ts: 1000, tracks: vec![(Kind::Avc, 1000), (Kind::Aac, 48000)], samples: s, heavy: true });
    }
    // stream origin: first chunk offset around 2^32 without any volume; far above 2^32
    for k in ALL_KINDS {
        for (label, origin) in [
            ("first_chunk_offset=2^32+1", TWO32 - (FTYP_LEN + 16 - 1)),
            ("first_chunk_offset=2^32", TWO32 - (FTYP_LEN + 16)),
            ("first_chunk_offset=2^32-1", TWO32 - (FTYP_LEN + 16 + 1)),
            ("origin=2^32", TWO32),
            ("origin=2^32-1", TWO32 - 1),
            ("origin=2^40", 1u64 << 40),
            ("origin=2^32-20 (mdat header straddles)", TWO32 - 20),
        ] {
            let t = if k == Kind::Aac { 48000 } else { 1000 };
            let s = vec![(1u32, 3u64, t, 0i32, true), (1, 2, t / 2, 5, false), (1, 0, t / 2, 0, false), (1, 4, t, -5, true)];
            v.push(BigCase { name: format!("{}:{}", label, k.name()), origin, movie_ts: 1000, tracks: vec![(k, t)], samples: s, heavy: false });
        }
    }
    // several tracks with chunks still pending at write_end: the 2^32 boundary is placed at every byte of the region the
    // final flushes write (origin sweep), so it falls inside / between the flushes of every track in turn
    for (ka, kb) in [(Kind::Avc, Kind::Aac), (Kind::Hevc, Kind::Ttxt), (Kind::Vp9, Kind::Aac), (Kind::Aac, Kind::Avc)] {
        let s = vec![(1u32, 4u64, 1000u32, 0i32, true), (2, 3, 48000, 0, true), (1, 5, 10, 2, false), (2, 2, 10, 0, true), (1, 7, 10, 0, false), (2, 6, 10, 0, false)];
        let total: u64 = s.iter().map(|x| x.1).sum();
        for k in 0..=(total + 2) {
            v.push(BigCase { name: format!("pending_flushes:{}+{}:boundary_at_data_byte_{}", ka.name(), kb.name(), k), origin: TWO32 - (FTYP_LEN + 16) - k, movie_ts: 1000, tracks: vec![(ka, 1000), (kb, 48000)], samples: s.clone(), heavy: false });
        }
    }
    // cumulative durations around 2^32 in mdhd (ratio 1) and in tkhd/mvhd (ratios 2 and 1/2)
    for k in ALL_KINDS {
        for (rname, m, t) in [("M/T=1", 1000u32, 1000u32), ("M/T=2", 2000, 1000), ("M/T=1/2", 500, 1000)] {
            for d in [-2i64, -1, 0, 1, 2] {
                // media duration such that duration*M/T = 2^32 + d (when representable)
                let target = (TWO32 as i64 + d) as u128;
                let sum = target * t as u128 / m as u128;
                if sum * m as u128 / t as u128 != target {
                    continue;
                }
                let sum = sum as u64;
                let n = (sum / (u32::MAX as u64) + 2) as usize;
                let mut s = vec![];
                let mut left = sum;
                for i in 0..n {
                    let part = if i + 1 == n { left } else { left / (n - i) as u64 };
                    s.push((1u32, 1 + (i as u64 % 2), part as u32, 0i32, i == 0));
                    left -= part;
                }
                v.push(BigCase { name: format!("duration*{}=2^32{:+}:{}", rname, d, k.name()), origin: 0, movie_ts: m, tracks: vec![(k, t)], samples: s, heavy: false });
            }
        }
    }
    // durations whose conversion into the movie timescale lands just above 2^k for k other than 32 (31, 33, 40, 44, 48,
    // 52..54, 60, 62, 63) with timescale pairs whose ratio is far from 1 or whose product with the media duration leaves
    // 64 bits: integer-exact conversion, no refusal as long as the result fits in 64 bits, header durations and accessors
    for (mts, tts) in [(4294967291u32, 1u32), (4294967291, 1000), (4294967291, 90000), (1_000_000_000, 1_000_000_000), (u32::MAX, u32::MAX), (90000, 1000), (1_000_000_000, 4_000_000_000), (3_500_000_000, 3_000_000_000), (u32::MAX - 1, u32::MAX), (u32::MAX, 1 << 31), (3, 4_000_000_007)] {
        for k in [31u32, 33, 40, 44, 48, 52, 53, 54, 60, 62, 63] {
            let target = (1u128 << k) + 12345; // movie ticks
            let media = target * tts as u128 / mts as u128 + 1;
            if media * mts as u128 / tts as u128 > u64::MAX as u128 {
                continue;
            }
            let n = (media / u32::MAX as u128 + 2) as usize;
            if n > 140_000 {
                continue;
            }
            let mut s = vec![];
            let mut left = media as u64;
            for i in 0..n {
                let part = if i + 1 == n { left } else { left / (n - i) as u64 };
                s.push((1u32, if i < 3 { 1 + i as u64 } else { 0 }, part as u32, 0i32, i == 0));
                left -= part;
            }
            v.push(BigCase { name: format!("converted_duration_just_above_2^{}:M={},T={}", k, mts, tts), origin: 0, movie_ts: mts, tracks: vec![(Kind::Avc, tts)], samples: s, heavy: false });
        }
    }
    // several tracks, each independently short / exactly at 2^32-1 / above 2^32 movie ticks: every assignment for 2 and 3
    // tracks, so the long track comes first, in the middle and last (movie header form follows the longest track)
    for n in [2usize, 3] {
        let kinds = [Kind::Avc, Kind::Aac, Kind::Ttxt];
        for code in 0..3usize.pow(n as u32) {
            let levels: Vec<usize> = (0..n).map(|i| (code / 3usize.pow(i as u32)) % 3).collect();
            let mut s = vec![];
            for (ti, lv) in levels.iter().enumerate() {
                let sum: u64 = [3000u64, u32::MAX as u64, TWO32 + 7 + ti as u64][*lv];
                let parts = 3u64;
                let mut left = sum;
                for i in 0..parts {
                    let part = if i + 1 == parts { left } else { left / (parts - i) };
                    s.push((ti as u32 + 1, 1 + (i % 2), part as u32, 0i32, i == 0));
                    left -= part;
                }
            }
            v.push(BigCase { name: format!("tracks_durations_{:?} (0 short, 1 = 2^32-1, 2 above 2^32)", levels), origin: 0, movie_ts: 1000, tracks: (0..n).map(|i| (kinds[i], 1000)).collect(), samples: s, heavy: false });
        }
    }
    v
}

fn case_json(c: &BigCase) -> Value {
    let short: Vec<Value> = c.samples.iter().take(6).map(|s| json!([s.0, s.1, s.2, s.3, s.4])).collect();
    json!({"engine": "big", "name": c.name, "origin": c.origin, "movie_ts": c.movie_ts, "tracks": c.tracks.iter().map(|(k, t)| json!([k.name(), t])).collect::<Vec<_>>(),
        "samples_total": c.samples.len(), "first_samples": short, "last_sample": c.samples.last().map(|s| json!([s.0, s.1, s.2, s.3, s.4]))})
}

pub fn judge(c: &BigCase, l: &mut Local) {
    judge_as("C13", c, l)
}

/// The same oracle reported under another property id (C01 runs a few volume histories through it).
pub fn judge_as(prop: &str, c: &BigCase, l: &mut Local) {
    l.evaluations += 1;
    l.transitions += c.samples.len() as u64 + 3;
    let fail = |clause: &str, obs: Value, l: &mut Local| {
        l.outcome("VIOLATION");
        l.violations.push(Violation::new(prop, clause, case_json(c)).obs(obs));
    };
    let movie = MovieSpec::new(c.movie_ts, c.tracks.iter().map(|(k, t)| TrackSpec::new(*k, *t)).collect());
    let muxed = guard(|| -> std::result::Result<Sparse, String> {
        let mut w = Mp4Writer::write_start(Sparse::new(c.origin), &movie.config()).map_err(|e| format!("write_start: {:?}", e))?;
        for t in movie.tracks.iter() {
            w.add_track(&t.track_config()?).map_err(|e| format!("add_track: {:?}", e))?;
        }
        let mut counts = vec![0usize; c.tracks.len()];
        for (i, (track, size, dur, off, sync)) in c.samples.iter().enumerate() {
            let k = counts[*track as usize - 1];
            counts[*track as usize - 1] += 1;
            let s = Mp4Sample { start_time: 0, duration: *dur, rendering_offset: *off, is_sync: *sync, bytes: Bytes::from(vec![fill(*track, k); *size as usize]) };
            w.write_sample(*track, &s).map_err(|e| format!("write_sample #{}: {:?}", i, e))?;
        }
        w.write_end().map_err(|e| format!("write_end: {:?}", e))?;
        Ok(w.into_writer())
    });
    let mut out = match muxed {
        Ok(Ok(s)) => s,
        Ok(Err(e)) => return fail("muxer_call_failed", json!(e), l),
        Err(p) => return fail("muxer_call_panicked", json!(short_loc(&p)), l),
    };
    // model
    let mut model: Vec<Vec<WSample>> = vec![vec![]; c.tracks.len()];
    for (track, size, dur, off, sync) in c.samples.iter() {
        model[*track as usize - 1].push(WSample { size: *size, dur: *dur, off: *off, sync: *sync });
    }
    let track_ts: Vec<u32> = c.tracks.iter().map(|x| x.1).collect();
    l.validated += 1;
    if let Some((clause, detail)) = validate(&out, c.origin, &model, c.movie_ts, &track_ts) {
        return fail(&format!("independent_validator:{}", clause), detail, l);
    }
    // which forms were used (for the evidence; not an oracle by themselves)
    if let Ok(tops) = top_level(&out, c.origin) {
        let mdat_large = tops.iter().any(|t| &t.cc == b"mdat" && t.large);
        let moov = tops.iter().find(|t| &t.cc == b"moov").unwrap();
        let mut mb = vec![0u8; moov.size as usize];
        out.read_at(moov.start, &mut mb);
        let co64 = tree(&mb, moov.start).ok().map(|t| t[0].kids_named(b"trak").iter().any(|k| k.path(&[b"mdia", b"minf", b"stbl", b"co64"]).is_some())).unwrap_or(false);
        l.outcome(&format!("forms:mdat64={},co64={}", mdat_large, co64));
        // the statement's switch: a value that needs 64 bits must use the 64-bit form
        let mdat = tops.iter().find(|t| &t.cc == b"mdat").unwrap();
        if mdat.size > u32::MAX as u64 && !mdat_large {
            return fail("mdat_size_needs_64_bit_form", json!(mdat.size), l);
        }
    }
    // read back through the library
    let end = out.len;
    if out.seek(SeekFrom::Start(c.origin)).is_err() {
        machinery_failure("sparse seek failed");
    }
    let mut r = match guard(|| Mp4Reader::read_header(out, end)) {
        Ok(Ok(r)) => r,
        Ok(Err(e)) => return fail("open_failed", json!(format!("{:?}", e)), l),
        Err(p) => return fail("open_panicked", json!(short_loc(&p)), l),
    };
    for (ti, samples) in model.iter().enumerate() {
        let id = ti as u32 + 1;
        if guard(|| r.sample_count(id).ok()) != Ok(Some(samples.len() as u32)) {
            return fail("sample_count", json!({"track": id}), l);
        }
        let mut start = 0u64;
        for (k, s) in samples.iter().enumerate() {
            l.transitions += 1;
            match guard(|| r.read_sample(id, k as u32 + 1)) {
                Ok(Ok(Some(g))) => {
                    let b = fill(id, k);
                    let bytes_ok = g.bytes.len() as u64 == s.size && g.bytes.iter().all(|x| *x == b);
                    if !bytes_ok || g.start_time != start || g.duration != s.dur || g.rendering_offset != s.off || g.is_sync != s.sync {
                        return fail(
                            if !bytes_ok { "sample_bytes" } else { "sample_timing" },
                            json!({"track": id, "sample": k + 1, "got": {"len": g.bytes.len(), "first": g.bytes.first(), "start": g.start_time, "dur": g.duration, "off": g.rendering_offset, "sync": g.is_sync},
                                "expected": {"len": s.size, "byte": b, "start": start, "dur": s.dur, "off": s.off, "sync": s.sync}}),
                            l,
                        );
                    }
                }
                o => return fail("sample_unreadable", json!({"track": id, "sample": k + 1, "got": format!("{:?}", o.map(|r| r.map(|s| s.map(|_| ())).map_err(|e| e.to_string())))}), l),
            }
            start += s.dur as u64;
        }
        // durations through the API
        let t = &r.tracks()[&id];
        let sum: u64 = samples.iter().map(|s| s.dur as u64).sum();
        if t.trak.mdia.mdhd.duration != sum {
            return fail("mdhd_duration_via_reader", json!({"got": t.trak.mdia.mdhd.duration, "expected": sum}), l);
        }
        // the track header duration (movie units) and the accessor, as the reader reports them
        let ts = c.tracks[ti].1 as u128;
        if ts != 0 {
            let want = (sum as u128 * c.movie_ts as u128 / ts) as u64;
            let got = t.trak.tkhd.duration;
            if got.max(want) - got.min(want) > 1 {
                return fail("tkhd_duration_via_reader", json!({"track": id, "got": got, "expected": want}), l);
            }
            let d = t.duration().as_secs_f64();
            let true_s = sum as f64 / ts as f64;
            if (d - true_s).abs() > (1.0 / ts as f64).max(1e-6) + 1e-6 + true_s * 8.0 * f64::EPSILON {
                return fail("track_duration_accessor", json!({"track": id, "got_s": d, "expected_s": true_s}), l);
            }
        }
    }
    {
        let longest: u64 = model.iter().enumerate().map(|(ti, s)| if c.tracks[ti].1 == 0 { 0 } else { (s.iter().map(|x| x.dur as u128).sum::<u128>() * c.movie_ts as u128 / c.tracks[ti].1 as u128) as u64 }).max().unwrap_or(0);
        let got = r.moov.mvhd.duration;
        if got.max(longest) - got.min(longest) > 1 {
            return fail("mvhd_duration_via_reader", json!({"got": got, "expected": longest}), l);
        }
        if c.movie_ts != 0 {
            let d = r.duration().as_secs_f64();
            let true_s = longest as f64 / c.movie_ts as f64;
            if (d - true_s).abs() > 1.0 / c.movie_ts as f64 + 1e-3 + 1e-9 + true_s * 8.0 * f64::EPSILON {
                return fail("movie_duration_accessor", json!({"got_s": d, "expected_s": true_s}), l);
            }
        }
    }
    l.nontrivial += 1;
    l.outcome("ok");
}

pub fn run(tier: Tier, seed: u64) -> i32 {
    let mut ev = Evidence::new("C13", tier, seed, "model_checking");
    let rep = Reporter::new("C13");
    let all = cases(tier);
    let (heavy, light): (Vec<BigCase>, Vec<BigCase>) = all.iter().cloned().partition(|c| c.heavy);
    let merge = |a: &mut Local, b: Local| {
        a.evaluations += b.evaluations;
        a.transitions += b.transitions;
        a.validated += b.validated;
        a.nontrivial += b.nontrivial;
        for (k, v) in b.outcomes {
            *a.outcomes.entry(k).or_insert(0) += v;
        }
        a.violations.merge(b.violations);
    };
    let mut l = Local::default();
    let r = light
        .par_iter()
        .fold(Local::default, |mut l, c| {
            judge(c, &mut l);
            l
        })
        .reduce(Local::default, |mut a, b| {
            merge(&mut a, b);
            a
        });
    merge(&mut l, r);
    // heavy cases: 4.3 GB each through the sparse stream; 8 at a time keeps memory modest
    let pool = rayon::ThreadPoolBuilder::new().num_threads(8).build().unwrap();
    let r = pool.install(|| {
        heavy
            .par_iter()
            .fold(Local::default, |mut l, c| {
                judge(c, &mut l);
                l
            })
            .reduce(Local::default, |mut a, b| {
                merge(&mut a, b);
                a
            })
    });
    merge(&mut l, r);
    ev.set("evaluations", json!(l.evaluations));
    ev.set("states", json!(l.evaluations));
    ev.set("transitions", json!(l.transitions));
    ev.set("traces_validated_against_impl", json!(l.validated));
    ev.set("distinct_nontrivial", json!(l.nontrivial));
    ev.set("rule", json!("one case = one muxing history constructed to land a cumulative quantity exactly at 2^32-2..2^32+2 (media-data size, last/first chunk offset by volume or by stream origin, summed durations in media/movie timescale); muxed by the real writer over a sparse stream, validated by the independent parser and read back sample by sample through the real reader; every case is distinct (named) and non-trivial when all oracles agreed"));
    ev.set("cases", json!(all.iter().map(|c| c.name.clone()).collect::<Vec<_>>()));
    ev.set("exhaustive", json!(true));
    ev.set("outcome_classes", Value::Object(l.outcomes.iter().map(|(k, v)| (k.clone(), json!(v))).collect()));
    ev.set("bound", json!("boundary-value enumeration: each 32-bit limit x {below, at, above} x track kinds (volume cases: AVC only in quick, all five kinds in thorough; origin and duration cases: all kinds always)"));
    ev.set("samples", json!(all.iter().take(3).map(case_json).collect::<Vec<_>>()));
    ev.assume("large samples are constant-valued (one repeated byte per sample) so that the sparse stream can hold > 4 GiB; > 4 GiB boxes other than mdat are unreachable through the muxer and not covered");
    let v = std::mem::take(&mut l.violations);
    v.drain_into(&rep);
    conclude(&ev, &rep)
}
