//! C18 — metadata accessors return the tags the file encodes (engine E2).

use crate::common::*;
use crate::hist::Local;
use crate::mux::open;
use crate::refmp4::build::*;
use crate::refmp4::movie::*;
use crate::refmp4::tree::*;
use mp4::Metadata;
use rayon::prelude::*;
use serde_json::{json, Value};

#[derive(Clone, Debug, PartialEq)]
pub enum YearEnc {
    Text(String),
    Binary(u32),
}

#[derive(Clone, Debug, Default)]
pub struct Tags {
    pub title: Option<String>,
    pub year: Option<YearEnc>,
    pub poster: Option<Vec<u8>>,
    pub desc: Option<String>,
}

#[derive(Clone, Copy, Debug, PartialEq, Eq)]
pub enum Extra {
    /// unrelated item with text data
    OtherText,
    /// unrelated item whose data box has a type the library does not know
    OtherUnknownType,
    /// unrelated item without any data box (a free box inside)
    OtherNoData,
    /// a title item without any data box — only generated under handlers other than mdir (the list is then not iTunes data)
    KnownNoData,
    /// a poster item whose data box has type 14 (PNG) — only under handlers other than mdir
    KnownPngType,
    /// a child of the list that is too short to be a box followed by bytes that are not boxes — only under other handlers
    NotBoxes,
}

#[derive(Clone, Debug)]
pub struct MetaCase {
    pub tags: Tags,
    /// order in which the present items are written (indices into [title, year, poster, desc])
    pub order: Vec<usize>,
    /// (position in the item list, kind)
    pub extras: Vec<(usize, Extra)>,
    pub handler: [u8; 4],
    pub full_meta: bool,
    /// 0 = udta/meta (normal), 1 = no udta at all, 2 = udta without meta, 3 = meta directly in moov,
    /// 4 = udta/meta whose only child is the handler (no item list box at all)
    pub placement: u8,
    /// 0 = non-fragmented file; 1 = fragmented movie, one stream; 2 = fragmented movie, the accessors are asked on the
    /// reader derived for a separately opened media segment (read_header on the init segment, then read_fragment_header)
    pub delivery: u8,
    /// Some(k): the k-th box (depth-first) of the user-data subtree is written with the 64-bit size header
    pub large_nth: Option<usize>,
}

fn set_large_nth(n: &mut Node, k: &mut usize) -> bool {
    if *k == 0 {
        n.large = true;
        return true;
    }
    *k -= 1;
    if let Some(kids) = n.children_mut() {
        for c in kids.iter_mut() {
            if set_large_nth(c, k) {
                return true;
            }
        }
    }
    false
}

fn count_boxes(n: &Node) -> usize {
    1 + n.children().map(|k| k.iter().map(count_boxes).sum::<usize>()).unwrap_or(0)
}

fn text(len: usize) -> String {
    // valid UTF-8 with multi-byte characters, exactly `len` bytes
    let pat = ["A", "\u{e9}", "\u{65e5}", "z", "\u{1F600}"];
    let mut s = String::new();
    let mut i = 0;
    while s.len() < len {
        let p = pat[i % pat.len()];
        if s.len() + p.len() <= len {
            s.push_str(p);
        } else {
            s.push('x');
        }
        i += 1;
    }
    s
}

/// Text whose edges a tidy-minded reader might trim: NUL / white space / byte-order mark at either end.
fn edge_texts() -> Vec<String> {
    vec!["Ab\0".into(), "\0".into(), "\0Ab".into(), " Ab ".into(), "\u{feff}Ab".into(), "Ab\n".into()]
}

fn item_nodes(c: &MetaCase) -> Vec<Node> {
    let mut items: Vec<Node> = vec![];
    for &i in c.order.iter() {
        match i {
            0 => {
                if let Some(t) = &c.tags.title {
                    items.push(ilst_item(&[0xa9, b'n', b'a', b'm'], 1, t.as_bytes()));
                }
            }
            1 => match &c.tags.year {
                Some(YearEnc::Text(s)) => items.push(ilst_item(&[0xa9, b'd', b'a', b'y'], 1, s.as_bytes())),
                Some(YearEnc::Binary(v)) => items.push(ilst_item(&[0xa9, b'd', b'a', b'y'], 0, &v.to_be_bytes())),
                None => {}
            },
            2 => {
                if let Some(p) = &c.tags.poster {
                    items.push(ilst_item(b"covr", 13, p));
                }
            }
            _ => {
                if let Some(t) = &c.tags.desc {
                    items.push(ilst_item(b"desc", 1, t.as_bytes()));
                }
            }
        }
    }
    // extras are inserted at the given positions (descending so that indices stay valid)
    let mut ex = c.extras.clone();
    ex.sort_by(|a, b| b.0.cmp(&a.0));
    for (pos, kind) in ex {
        let n = match kind {
            Extra::OtherText => ilst_item(&[0xa9, b't', b'o', b'o'], 1, b"Lavf58.76.100"),
            Extra::OtherUnknownType => ilst_item(b"tmpo", 99, &[0, 120]),
            Extra::OtherNoData => Node::kids(b"----", vec![Node::leaf(b"mean", b"\0\0\0\0com.apple.iTunes".to_vec())]),
            Extra::KnownNoData => Node::kids(&[0xa9, b'n', b'a', b'm'], vec![Node::leaf(b"free", vec![1, 2, 3])]),
            Extra::KnownPngType => ilst_item(b"covr", 14, &[0x89, b'P', b'N', b'G']),
            Extra::NotBoxes => Node::leaf(b"desc", vec![0, 0, 0, 3, 0xff, 0xff, 0xff]),
        };
        let p = pos.min(items.len());
        items.insert(p, n);
    }
    items
}

/// (file or initialization segment, media segment when delivered separately)
pub fn build(c: &MetaCase) -> (Vec<u8>, Option<Vec<u8>>) {
    let hd = hdlr(0, 0, &c.handler, "");
    let il = ilst(item_nodes(c));
    let mt = if c.placement == 4 { meta(c.full_meta, vec![hd]) } else { meta(c.full_meta, vec![hd, il]) };
    let mut extra = match c.placement {
        0 | 4 => vec![udta(vec![mt])],
        1 => vec![],
        2 => vec![udta(vec![Node::leaf(b"name", b"x".to_vec())])],
        _ => vec![mt],
    };
    if let (Some(k), Some(root)) = (c.large_nth, extra.first_mut()) {
        let mut k = k;
        set_large_nth(root, &mut k);
    }
    if c.delivery == 0 {
        let t = LTrack::simple(1, Codec::Avc, 1000, vec![LSample { size: 2, delta: 40, cts: 0, sync: true }], vec![1]);
        let mut m = LMovie::new(1000, vec![t]);
        m.moov_extra = extra;
        return (encode(&m).0, None);
    }
    use crate::refmp4::frag::*;
    let o = crate::props::c09::all_opts()[0];
    let fm = LFragMovie { movie_ts: 1000, tracks: vec![LFragTrack { id: 1, codec: Codec::Avc, timescale: 1000, trex_default_duration: 9 }], fragments: vec![vec![crate::props::c09::mk_run(1, &o, 2, 0)]], mehd: None, large_moof: false, offsets_only: false, fillers: 0 };
    let mut init = init_nodes(&fm);
    init[1].children_mut().unwrap().extend(extra);
    let (media, _) = media_nodes(&fm);
    if c.delivery == 1 {
        init.extend(media);
        (serialize(&init).0, None)
    } else {
        (serialize(&init).0, Some(serialize(&media).0))
    }
}

pub fn judge(c: &MetaCase, l: &mut Local) {
    let (bytes, media) = build(c);
    l.evaluations += 1;
    l.transitions += 5;
    let case = || {
        let mut v = json!({"engine": "shape_meta", "title": c.tags.title.as_ref().map(|s| s.len()), "year": format!("{:?}", c.tags.year), "poster": c.tags.poster.as_ref().map(|p| p.len()),
            "desc": c.tags.desc.as_ref().map(|s| s.len()), "order": c.order, "extras": c.extras.iter().map(|(p, k)| json!([p, format!("{:?}", k)])).collect::<Vec<_>>(),
            "handler": hex(&c.handler), "full_meta": c.full_meta, "placement": c.placement, "delivery": c.delivery, "large_nth": c.large_nth,
            "title_text": c.tags.title.as_ref().filter(|s| s.len() <= 16), "desc_text": c.tags.desc.as_ref().filter(|s| s.len() <= 16)});
        if bytes.len() <= 4096 {
            v["input_hex"] = json!(hex(&bytes));
            v["media_segment_hex"] = json!(media.as_ref().map(|m| hex(m)));
        }
        v
    };
    let r = match open(&bytes) {
        Ok(r) => r,
        Err(e) => {
            l.outcome("open_failed");
            l.violations.push(Violation::new("C18", "file_with_metadata_does_not_open", case()).obs(json!(e)));
            return;
        }
    };
    let r = match &media {
        None => r,
        Some(mb) => match guard(|| r.read_fragment_header(std::io::Cursor::new(&mb[..]), mb.len() as u64)) {
            Ok(Ok(d)) => d,
            o => {
                l.outcome("open_failed");
                l.violations.push(Violation::new("C18", "media_segment_does_not_open", case()).obs(json!(format!("{:?}", o.map(|r| r.map(|_| ()).map_err(|e| e.to_string()))))));
                return;
            }
        },
    };
    l.validated += 1;
    let visible = c.placement == 0 && &c.handler == b"mdir";
    let exp_title = if visible { c.tags.title.clone() } else { None };
    let exp_year = if visible {
        match &c.tags.year {
            Some(YearEnc::Text(s)) => s.parse::<u32>().ok(),
            Some(YearEnc::Binary(v)) => Some(*v),
            None => None,
        }
    } else {
        None
    };
    let exp_poster = if visible { c.tags.poster.clone() } else { None };
    let exp_desc = if visible { c.tags.desc.clone() } else { None };
    let got = guard(|| {
        let m = r.metadata();
        (m.title().map(|c| c.into_owned()), m.year(), m.poster().map(|p| p.to_vec()), m.summary().map(|c| c.into_owned()))
    });
    match got {
        Err(p) => l.violations.push(Violation::new("C18", "accessor_panicked", case()).obs(json!(short_loc(&p)))),
        Ok((t, y, p, s)) => {
            let mut ok = true;
            if t != exp_title {
                ok = false;
                l.violations.push(Violation::new("C18", "title", case()).obs(json!(t)).exp(json!(exp_title)));
            }
            if y != exp_year {
                ok = false;
                l.violations.push(Violation::new("C18", "year", case()).obs(json!(y)).exp(json!(exp_year)));
            }
            if p != exp_poster {
                ok = false;
                l.violations.push(Violation::new("C18", "poster", case()).obs(json!(p.map(|x| x.len()))).exp(json!(exp_poster.map(|x| x.len()))));
            }
            if s != exp_desc {
                ok = false;
                l.violations.push(Violation::new("C18", "summary", case()).obs(json!(s)).exp(json!(exp_desc)));
            }
            if ok {
                l.outcome(if visible { "ok:visible" } else { "ok:absent" });
                if visible && (c.tags.title.is_some() || c.tags.year.is_some() || c.tags.poster.is_some() || c.tags.desc.is_some()) {
                    l.nontrivial += 1;
                }
            } else {
                l.outcome("VIOLATION");
            }
        }
    }
}

fn merge(a: &mut Local, b: Local) {
    a.evaluations += b.evaluations;
    a.transitions += b.transitions;
    a.validated += b.validated;
    a.nontrivial += b.nontrivial;
    for (k, v) in b.outcomes {
        *a.outcomes.entry(k).or_insert(0) += v;
    }
    a.violations.merge(b.violations);
}

pub fn run(tier: Tier, seed: u64) -> i32 {
    let mut ev = Evidence::new("C18", tier, seed, "model_checking");
    let rep = Reporter::new("C18");
    let th = tier == Tier::Thorough;
    let titles: Vec<Option<String>> = std::iter::once(None).chain([0usize, 1, 4, 5, 300, 70000].iter().map(|&n| Some(text(n)))).chain(edge_texts().into_iter().map(Some)).collect();
    let years: Vec<Option<YearEnc>> = vec![
        None,
        Some(YearEnc::Text("0".into())),
        Some(YearEnc::Text("7".into())),
        Some(YearEnc::Text("2024".into())),
        Some(YearEnc::Text("4294967295".into())),
        // decimal text whose value does not fit the 32-bit answer: no year (never a wrapped value)
        Some(YearEnc::Text("4294967296".into())),
        Some(YearEnc::Text("20080101120000".into())),
        Some(YearEnc::Text("99999999999999999999999".into())),
        Some(YearEnc::Text("0002008".into())),
        // text that is not a decimal number, of exactly the length of the binary form: no year (a text-typed item is
        // never read as the binary form)
        Some(YearEnc::Text("199x".into())),
        Some(YearEnc::Text("-500".into())),
        Some(YearEnc::Text("MMXX".into())),
        Some(YearEnc::Text("202\0".into())),
        Some(YearEnc::Binary(0)),
        Some(YearEnc::Binary(2024)),
        Some(YearEnc::Binary(u32::MAX)),
    ];
    let posters: Vec<Option<Vec<u8>>> = std::iter::once(None).chain([0usize, 1, 300, 70000].iter().map(|&n| Some((0..n).map(|i| (i * 7 + 0xff) as u8).collect()))).collect();
    let descs: Vec<Option<String>> = std::iter::once(None).chain([0usize, 5, 300].iter().map(|&n| Some(text(n)))).chain(edge_texts().into_iter().map(Some)).collect();
    let mut tag_sets = vec![];
    for t in titles.iter() {
        for y in years.iter() {
            for p in posters.iter() {
                for d in descs.iter() {
                    tag_sets.push(Tags { title: t.clone(), year: y.clone(), poster: p.clone(), desc: d.clone() });
                }
            }
        }
    }
    let orders: Vec<Vec<usize>> = if th {
        let mut out = vec![];
        fn permute(k: usize, a: &mut Vec<usize>, out: &mut Vec<Vec<usize>>) {
            if k == a.len() {
                out.push(a.clone());
                return;
            }
            for i in k..a.len() {
                a.swap(k, i);
                permute(k + 1, a, out);
                a.swap(k, i);
            }
        }
        permute(0, &mut vec![0, 1, 2, 3], &mut out);
        out
    } else {
        vec![vec![0, 1, 2, 3], vec![3, 2, 1, 0]]
    };
    let kinds = [Extra::OtherText, Extra::OtherUnknownType, Extra::OtherNoData];
    let mut extra_sets: Vec<Vec<(usize, Extra)>> = vec![vec![]];
    for pos in 0..=4usize {
        for k in kinds {
            extra_sets.push(vec![(pos, k)]);
        }
    }
    if th {
        for p1 in 0..=4usize {
            for p2 in p1..=4usize {
                for k1 in kinds {
                    for k2 in kinds {
                        extra_sets.push(vec![(p1, k1), (p2, k2)]);
                    }
                }
            }
        }
    } else {
        extra_sets.push(vec![(0, Extra::OtherUnknownType), (4, Extra::OtherText)]);
        extra_sets.push(vec![(2, Extra::OtherNoData), (2, Extra::OtherUnknownType)]);
    }
    let handlers: [[u8; 4]; 3] = [*b"mdir", *b"mdta", [0; 4]];
    // main product: tag sets x (handler, version word); orders and extras crossed with a reduced tag set
    let n_tags = tag_sets.len();
    let big = |t: &Tags| t.title.as_ref().map(|s| s.len() > 1000).unwrap_or(false) || t.poster.as_ref().map(|s| s.len() > 1000).unwrap_or(false);
    let l = tag_sets
        .par_iter()
        .fold(Local::default, |mut l, tags| {
            for h in handlers {
                for full in [true, false] {
                    judge(&MetaCase { tags: tags.clone(), order: vec![0, 1, 2, 3], extras: vec![], handler: h, full_meta: full, placement: 0, delivery: 0, large_nth: None }, &mut l);
                }
            }
            if !big(tags) || th {
                for o in orders.iter() {
                    for ex in extra_sets.iter() {
                        judge(&MetaCase { tags: tags.clone(), order: o.clone(), extras: ex.clone(), handler: *b"mdir", full_meta: true, placement: 0, delivery: 0, large_nth: None }, &mut l);
                    }
                }
                for ex in extra_sets.iter().take(16) {
                    judge(&MetaCase { tags: tags.clone(), order: vec![0, 1, 2, 3], extras: ex.clone(), handler: *b"mdir", full_meta: false, placement: 0, delivery: 0, large_nth: None }, &mut l);
                }
            }
            // the same movie delivered fragmented: in one stream, and through the reader derived for a media segment
            for delivery in 1..=2u8 {
                for h in handlers {
                    for placement in [0u8, 3] {
                        judge(&MetaCase { tags: tags.clone(), order: vec![0, 1, 2, 3], extras: vec![], handler: h, full_meta: true, placement, delivery, large_nth: None }, &mut l);
                    }
                }
            }
            for placement in 1..=3u8 {
                judge(&MetaCase { tags: tags.clone(), order: vec![0, 1, 2, 3], extras: vec![], handler: *b"mdir", full_meta: true, placement, delivery: 0, large_nth: None }, &mut l);
            }
            // a meta box that holds nothing but its handler, in both meta forms and under every handler
            for h in handlers {
                for full in [true, false] {
                    judge(&MetaCase { tags: tags.clone(), order: vec![0, 1, 2, 3], extras: vec![], handler: h, full_meta: full, placement: 4, delivery: 0, large_nth: None }, &mut l);
                }
            }
            if !big(tags) || th {
                // every box of the user-data subtree in turn with the 64-bit size header
                for full in [true, false] {
                    let probe = MetaCase { tags: tags.clone(), order: vec![0, 1, 2, 3], extras: vec![(1, Extra::OtherText)], handler: *b"mdir", full_meta: full, placement: 0, delivery: 0, large_nth: None };
                    let nboxes = count_boxes(&udta(vec![meta(full, vec![hdlr(0, 0, b"mdir", ""), ilst(item_nodes(&probe))])]));
                    for k in 0..nboxes {
                        judge(&MetaCase { large_nth: Some(k), ..probe.clone() }, &mut l);
                    }
                }
                // lists that are not iTunes data under a handler that does not say they are: the file opens, nothing is reported
                for h in [*b"mdta", [0u8; 4]] {
                    for kind in [Extra::KnownNoData, Extra::KnownPngType, Extra::NotBoxes] {
                        for pos in [0usize, 4] {
                            for full in [true, false] {
                                judge(&MetaCase { tags: tags.clone(), order: vec![0, 1, 2, 3], extras: vec![(pos, kind)], handler: h, full_meta: full, placement: 0, delivery: 0, large_nth: None }, &mut l);
                            }
                        }
                    }
                }
            }
            l
        })
        .reduce(Local::default, |mut a, b| {
            merge(&mut a, b);
            a
        });
    let mut l = l;
    ev.set("evaluations", json!(l.evaluations));
    ev.set("states", json!(l.evaluations));
    ev.set("transitions", json!(l.transitions));
    ev.set("traces_validated_against_impl", json!(l.validated));
    ev.set("distinct_nontrivial", json!(l.nontrivial));
    ev.set("rule", json!("one case = one reference-encoded movie whose user data carries an item list built from (subset of the four items x payload per item x item order x unrelated items at given positions x handler x meta form x placement x delivery); the four accessors are compared with the encoded values; non-trivial = at least one item present, handler mdir, all four answers agreed"));
    ev.set("exhaustive", json!(true));
    ev.set("enumeration", json!({"tag_sets": n_tags, "title_payloads": "absent + lengths 0,1,4,5,300,70000 (valid UTF-8 incl. 2-,3-,4-byte characters) + 6 edge texts (NUL / blank / newline / BOM at either end)", "year": "absent + text 0,7,2024,4294967295, 0002008 and three decimal texts beyond 32 bits (no year) + binary 0,2024,2^32-1",
        "poster": "absent + 0,1,300,70000 bytes (type 13)", "summary": "absent + 0,5,300 bytes + the 6 edge texts", "deliveries": ["non-fragmented file", "fragmented, one stream", "fragmented, reader derived by read_fragment_header from the init segment's reader"], "orders": orders.len(), "extra_item_sets": extra_sets.len(), "handlers": ["mdir", "mdta", "0000"], "meta_forms": ["FullBox", "QuickTime (no version word)"],
        "placements": ["udta/meta", "no udta", "udta without meta", "meta directly in moov", "udta/meta with the handler as its only child"],
        "header_forms": "every box of the user-data subtree in turn with the 64-bit size header", "non_itunes_lists": "under handlers mdta/zero: title item without data box, poster with type 14, child bytes that are not boxes"}));
    ev.set("outcome_classes", Value::Object(l.outcomes.iter().map(|(k, v)| (k.clone(), json!(v))).collect()));
    ev.set("samples", json!([
        {"title_len": 5, "year": "Text(2024)", "poster_len": 300, "desc_len": 0, "handler": "mdir", "expect": "all four values"},
        {"title_len": 5, "handler": "mdta", "expect": "all None"},
        {"year": "Binary(4294967295)", "extras": [[0, "OtherUnknownType"]], "expect": "year = 4294967295"}
    ]));
    ev.assume("only the encodings the statement names are generated: text type 1, binary 4-byte year (type 0), JPEG poster (type 13); PNG (14) and non-decimal year text are outside the statement");
    let v = std::mem::take(&mut l.violations);
    v.drain_into(&rep);
    conclude(&ev, &rep)
}
