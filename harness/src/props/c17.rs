//! C17 — the muxer API is total: bad arguments are errors, never panics.  E1 over the full argument
//! range (everything C01/C14 exclude), in both build profiles.

use crate::common::*;
use crate::hist::Local;
use crate::mux::*;
use mp4::*;
use rayon::prelude::*;
use serde_json::{json, Value};
use std::io::Cursor;

#[derive(Clone, Debug)]
pub enum Call {
    Add(usize),
    Sample(Op),
}

#[derive(Clone, Debug)]
pub struct Cfg {
    pub name: String,
    pub movie: MovieSpec, // tracks = the specs that Add(i) refers to (not added automatically)
    pub alphabet: Vec<Call>,
    pub max_len: usize,
}

fn call_json(c: &Call) -> Value {
    match c {
        Call::Add(i) => json!({"add_track": i}),
        Call::Sample(o) => json!({"write_sample": o.to_json()}),
    }
}

fn sample_ops(tracks: &[u32], sizes: &[u32], durs: &[u32], offs: &[i32]) -> Vec<Call> {
    let mut v = vec![];
    for &t in tracks {
        for &s in sizes {
            for &d in durs {
                for &o in offs {
                    v.push(Call::Sample(Op { track: t, size: s, dur: d, off: o, sync: d % 2 == 0 }));
                }
            }
        }
    }
    v
}

pub fn configs(tier: Tier) -> Vec<Cfg> {
    let th = tier == Tier::Thorough;
    let depth = if th { 5 } else { 4 };
    let mut v = vec![];
    // timescales including 0, every kind
    for k in ALL_KINDS {
        for &t in &[0u32, 1, 1000, u32::MAX] {
            for &m in &[0u32, 1, 1000, u32::MAX] {
                let movie = MovieSpec::new(m, vec![TrackSpec::new(k, t)]);
                let mut al = vec![Call::Add(0)];
                al.extend(sample_ops(&[1, 2], &[0, 1], &[0, 500, 1 << 31, u32::MAX], &[0]));
                al.extend(sample_ops(&[0, u32::MAX], &[1], &[500], &[0]));
                v.push(Cfg { name: format!("timescales:{}:T={}:M={}", k.name(), t, m), movie, alphabet: al, max_len: if k == Kind::Avc || th { depth } else { 3 } });
            }
        }
    }
    // parameter-set lengths 0..4
    for sl in 0..=4usize {
        for pl in 0..=4usize {
            let mut t = TrackSpec::new(Kind::Avc, 1000);
            t.sps = (0..sl).map(|i| 0x60 + i as u8).collect();
            t.pps = (0..pl).map(|i| 0x10 + i as u8).collect();
            let movie = MovieSpec::new(1000, vec![t, TrackSpec::new(Kind::Aac, 48000)]);
            let mut al = vec![Call::Add(0), Call::Add(1)];
            al.extend(sample_ops(&[1, 2, 3], &[1], &[500], &[0, i32::MIN]));
            v.push(Cfg { name: format!("param_sets:sps={},pps={}", sl, pl), movie, alphabet: al, max_len: depth });
        }
    }
    // parameter-set contents: every byte string of length 0..6 over {00, 01, 67} (start-code look-alikes, short
    // headers behind them), as the SPS and as the PPS
    {
        let mut strings: Vec<Vec<u8>> = vec![vec![]];
        let mut frontier: Vec<Vec<u8>> = vec![vec![]];
        for _ in 0..6 {
            let mut next = vec![];
            for s in frontier.iter() {
                for b in [0u8, 1, 0x67] {
                    let mut t = s.clone();
                    t.push(b);
                    next.push(t);
                }
            }
            strings.extend(next.iter().cloned());
            frontier = next;
        }
        for s in strings.iter() {
            for which in 0..2 {
                let mut t = TrackSpec::new(Kind::Avc, 1000);
                if which == 0 {
                    t.sps = s.clone();
                } else {
                    t.pps = s.clone();
                }
                let movie = MovieSpec::new(1000, vec![t]);
                let mut al = vec![Call::Add(0)];
                al.extend(sample_ops(&[1], &[1], &[500], &[0]));
                v.push(Cfg { name: format!("param_set_bytes:{}={}", if which == 0 { "sps" } else { "pps" }, hex(s)), movie, alphabet: al, max_len: 3 });
            }
        }
    }
    // the configuration grid shared with C02/C15 (brands, kinds, languages, every AAC object type / frequency index,
    // parameter-set lengths): add_track of every track, then short sample sequences
    for (gi, m) in config_grid().into_iter().enumerate() {
        let mut al: Vec<Call> = (0..m.tracks.len()).map(Call::Add).collect();
        al.extend(sample_ops(&[1], &[1, 3], &[m.tracks[0].timescale], &[0]));
        if m.tracks.len() > 1 {
            al.extend(sample_ops(&[2], &[0], &[1024], &[0]));
        }
        v.push(Cfg { name: format!("config_grid:{}", gi), movie: m, alphabet: al, max_len: 3 });
    }
    // languages and brands of any bytes
    let langs: Vec<String> = vec!["".into(), "x".into(), "xy".into(), "ENG".into(), "\u{65e5}\u{672c}\u{8a9e}".into(), "z".repeat(300), "\0\0\0".into(), "\u{1F600}a".into()];
    for lang in langs {
        for k in [Kind::Avc, Kind::Ttxt] {
            let mut t = TrackSpec::new(k, 1000);
            t.language = lang.clone();
            let mut movie = MovieSpec::new(1000, vec![t]);
            movie.major = [0xff, 0x00, 0x80, 0xa9];
            movie.compat = vec![[0, 0, 0, 0], [0xff; 4]];
            movie.minor = u32::MAX;
            let mut al = vec![Call::Add(0)];
            al.extend(sample_ops(&[1], &[0, 2], &[0, 1000], &[0, i32::MAX]));
            v.push(Cfg { name: format!("language:{:?}:{}", lang.chars().take(8).collect::<String>(), k.name()), movie, alphabet: al, max_len: depth });
        }
    }
    // no tracks at all / samples before any track / add_track after samples, three kinds interleaved
    {
        let movie = MovieSpec::new(600, vec![TrackSpec::new(Kind::Hevc, 30), TrackSpec::new(Kind::Vp9, 90000), TrackSpec::new(Kind::Ttxt, 1)]);
        let mut al = vec![Call::Add(0), Call::Add(1), Call::Add(2)];
        al.extend(sample_ops(&[0, 1, 2, 3, 4], &[1], &[1, u32::MAX], &[0]));
        v.push(Cfg { name: "call_order:add_after_samples".into(), movie, alphabet: al, max_len: depth });
    }
    // maximal durations repeated (u32 chunk duration, u64 header sums)
    {
        let movie = MovieSpec::new(u32::MAX, vec![TrackSpec::new(Kind::Aac, 1)]);
        let mut al = vec![Call::Add(0)];
        al.extend(sample_ops(&[1], &[1], &[1 << 31, u32::MAX, u32::MAX - 1], &[0, i32::MIN, i32::MAX]));
        v.push(Cfg { name: "max_durations".into(), movie, alphabet: al, max_len: depth + 1 });
    }
    v
}

/// Very large AAC samples around the 24-bit decoder-buffer field: a handful of explicit sequences.
fn big_sample_cases() -> Vec<(Cfg, Vec<Call>)> {
    let mut v = vec![];
    for k in [Kind::Aac, Kind::Avc] {
        for size in [(1u32 << 24) - 1, 1 << 24, (1 << 24) + 1] {
            let movie = MovieSpec::new(1000, vec![TrackSpec::new(k, 48000)]);
            let cfg = Cfg { name: format!("big_sample:{}:{}", k.name(), size), movie, alphabet: vec![], max_len: 0 };
            let seq = vec![Call::Add(0), Call::Sample(Op { track: 1, size, dur: 1024, off: 0, sync: true }), Call::Sample(Op { track: 1, size: 3, dur: 1024, off: 0, sync: true })];
            v.push((cfg, seq));
        }
    }
    v
}

fn total(a: usize, d: usize) -> u64 {
    let mut t = 0u64;
    let mut p = 1u64;
    for _ in 0..=d {
        t += p;
        p *= a as u64;
    }
    t
}

fn decode(cfg: &Cfg, mut idx: u64) -> Vec<Call> {
    let a = cfg.alphabet.len() as u64;
    let mut len = 0;
    let mut p = 1u64;
    while idx >= p {
        idx -= p;
        p *= a;
        len += 1;
    }
    let mut d = vec![0usize; len];
    for i in (0..len).rev() {
        d[i] = (idx % a) as usize;
        idx /= a;
    }
    d.into_iter().map(|i| cfg.alphabet[i].clone()).collect()
}

pub fn run_seq(seed: u64, cfg: &Cfg, seq: &[Call], l: &mut Local) {
    l.evaluations += 1;
    l.transitions += seq.len() as u64 + 2;
    let case = || json!({"engine": "c17", "config_name": cfg.name, "config": cfg.movie.to_json(), "calls": seq.iter().map(call_json).collect::<Vec<_>>(), "seed": seed});
    // reference model while driving
    let mut added: Vec<usize> = vec![];
    let mut model: Vec<Vec<RefSample>> = vec![];
    let mut tacc: Vec<u64> = vec![];
    let mut all_ok = true;
    let mut panicked: Option<(String, String)> = None;
    let conf = cfg.movie.config();
    let start = guard(|| Mp4Writer::write_start(Cursor::new(Vec::new()), &conf));
    let mut w = match start {
        Ok(Ok(w)) => w,
        Ok(Err(_)) => {
            l.outcome("write_start:err");
            return;
        }
        Err(p) => {
            l.violations.push(Violation::new("C17", "muxer_call_panicked", case()).tag("write_start").obs(json!(short_loc(&p))));
            return;
        }
    };
    for (ci, c) in seq.iter().enumerate() {
        match c {
            Call::Add(i) => {
                let spec = &cfg.movie.tracks[*i];
                let tc = match spec.track_config() {
                    Ok(t) => t,
                    Err(_) => continue,
                };
                match guard(|| w.add_track(&tc)) {
                    Ok(Ok(())) => {
                        added.push(*i);
                        model.push(vec![]);
                        tacc.push(0);
                    }
                    Ok(Err(_)) => all_ok = false,
                    Err(p) => {
                        panicked = Some((format!("add_track (call {})", ci), short_loc(&p)));
                        break;
                    }
                }
            }
            Call::Sample(op) => {
                let valid = op.track >= 1 && (op.track as usize) <= added.len();
                let k = if valid { model[op.track as usize - 1].len() } else { 0 };
                let bytes = payload(seed, k, op.track, op.size);
                let s = Mp4Sample { start_time: 0, duration: op.dur, rendering_offset: op.off, is_sync: op.sync, bytes: Bytes::from(bytes.clone()) };
                match guard(|| w.write_sample(op.track, &s)) {
                    Ok(Ok(())) => {
                        if valid {
                            let t = op.track as usize - 1;
                            model[t].push(RefSample { bytes, start: tacc[t], dur: op.dur, off: op.off, sync: op.sync });
                            tacc[t] += op.dur as u64;
                        } else {
                            l.violations.push(Violation::new("C17", "write_sample_to_unknown_track_accepted", case()).obs(json!({"call": ci})));
                            return;
                        }
                    }
                    Ok(Err(_)) => all_ok = false,
                    Err(p) => {
                        panicked = Some((format!("write_sample (call {})", ci), short_loc(&p)));
                        break;
                    }
                }
            }
        }
    }
    if panicked.is_none() {
        match guard(|| w.write_end()) {
            Ok(Ok(())) => {}
            Ok(Err(_)) => all_ok = false,
            Err(p) => panicked = Some(("write_end".into(), short_loc(&p))),
        }
    }
    if let Some((call, p)) = panicked {
        l.outcome("PANIC");
        let site = p.rsplit(" @ ").next().unwrap_or("?").to_string();
        let mut v = Violation::new("C17", "muxer_call_panicked", case()).tag(call.split(' ').next().unwrap_or("?")).tag(&site).obs(json!({"call": call, "panic": p}));
        if cfg.movie.tracks.iter().any(|t| t.timescale == 0) {
            v = v.tag("track_timescale_0");
        }
        l.violations.push(v);
        return;
    }
    if !all_ok {
        l.outcome("some_call_returned_err");
        l.nontrivial += 1;
        return;
    }
    // every call succeeded: the output must satisfy the other muxer properties
    l.outcome("all_ok");
    let bytes = w.into_writer().into_inner();
    l.validated += 1;
    if !seq.is_empty() {
        l.nontrivial += 1;
    }
    let mut r = match open(&bytes) {
        Ok(r) => r,
        Err(e) => {
            l.violations.push(Violation::new("C17", "all_calls_ok_but_output_does_not_open", case()).obs(json!(e)));
            return;
        }
    };
    let ids = sorted_track_ids(&r);
    if ids != (1..=added.len() as u32).collect::<Vec<_>>() {
        l.violations.push(Violation::new("C17", "all_calls_ok_but_track_ids_wrong", case()).obs(json!(ids)).exp(json!(added.len())));
        return;
    }
    for (ti, exp) in model.iter().enumerate() {
        let id = ti as u32 + 1;
        if guard(|| r.sample_count(id).ok()) != Ok(Some(exp.len() as u32)) {
            l.violations.push(Violation::new("C17", "all_calls_ok_but_sample_count_wrong", case()).obs(json!({"track": id})).exp(json!(exp.len())));
            return;
        }
        for (k, e) in exp.iter().enumerate() {
            let got = read_one(&mut r, id, k as u32 + 1);
            if got != Got::Some(e.clone()) {
                l.violations.push(Violation::new("C17", "all_calls_ok_but_sample_differs", case()).obs(json!({"track": id, "sample": k + 1, "got": got.to_json()})).exp(ref_json(e)));
                return;
            }
        }
    }
    if let Some(v) = crate::refmp4::validate::check_muxer_output(&bytes, &model, &cfg.movie, &added) {
        l.violations.push(Violation::new("C17", &format!("all_calls_ok_but_output_invalid:{}", v.0), case()).obs(json!(v.1)));
    }
}

fn merge(a: &mut Local, b: Local) {
    a.evaluations += b.evaluations;
    a.transitions += b.transitions;
    a.validated += b.validated;
    a.nontrivial += b.nontrivial;
    for (k, v) in b.outcomes {
        *a.outcomes.entry(k).or_insert(0) += v;
    }
    a.violations.merge(b.violations);
}

/// The exploration of one build profile (runs in the current binary).
pub fn explore_profile(tier: Tier, seed: u64) -> (Local, Vec<Value>) {
    let (mut l0, v0) = explore_profile_inner(tier, seed);
    // sequences in which the stream failed once: the failed call returns an error (C10); no LATER call may panic
    let (n, bad) = crate::props::c10::calls_after_stream_failure(tier, seed);
    l0.evaluations += n;
    l0.outcomes.entry("after_stream_failure:cases".into()).and_modify(|x| *x += n).or_insert(n);
    for b in bad {
        l0.violations.push(Violation::new("C17", "call_after_stream_failure_panicked", b));
    }
    (l0, v0)
}

fn explore_profile_inner(tier: Tier, seed: u64) -> (Local, Vec<Value>) {
    let mut l = Local::default();
    let mut fams = vec![];
    for cfg in configs(tier) {
        let n = total(cfg.alphabet.len(), cfg.max_len);
        let r = (0..n as usize)
            .into_par_iter()
            .fold(Local::default, |mut l, idx| {
                let seq = decode(&cfg, idx as u64);
                run_seq(seed, &cfg, &seq, &mut l);
                l
            })
            .reduce(Local::default, |mut a, b| {
                merge(&mut a, b);
                a
            });
        fams.push(json!({"config": cfg.name, "alphabet": cfg.alphabet.len(), "max_len": cfg.max_len, "sequences": n}));
        merge(&mut l, r);
    }
    for (cfg, seq) in big_sample_cases() {
        run_seq(seed, &cfg, &seq, &mut l);
        fams.push(json!({"config": cfg.name, "sequences": 1}));
    }
    (l, fams)
}

/// `mp4mc c17-inner`: run in this binary's profile and print a JSON summary for the parent.
pub fn inner(tier: Tier, seed: u64) -> i32 {
    let (mut l, fams) = explore_profile(tier, seed);
    let viol = std::mem::take(&mut l.violations);
    let classes: Vec<Value> = viol.0.into_iter().map(|(k, (n, vs))| json!({"class": k, "n": n, "first": vs.into_iter().map(|v| v.to_json()).collect::<Vec<_>>()})).collect();
    println!(
        "{}",
        json!({"profile": profile_name(), "evaluations": l.evaluations, "transitions": l.transitions, "validated": l.validated, "nontrivial": l.nontrivial,
               "outcomes": l.outcomes, "classes": classes, "families": fams})
    );
    0
}

pub fn run(tier: Tier, seed: u64) -> i32 {
    let mut ev = Evidence::new("C17", tier, seed, "model_checking");
    let rep = Reporter::new("C17");
    let mut evals = 0u64;
    let mut trans = 0u64;
    let mut valid = 0u64;
    let mut nontriv = 0u64;
    let mut outcomes = serde_json::Map::new();
    let mut families = Value::Null;
    for profile in ["release", "wrapping"] {
        let exe = crate::worker::self_exe(profile);
        let out = std::process::Command::new(&exe)
            .args(["c17-inner", "C17", "--tier", tier.name()])
            .env("VERIF_SEED", seed.to_string())
            .output()
            .unwrap_or_else(|e| machinery_failure(&format!("cannot run {}: {}", exe, e)));
        let txt = String::from_utf8_lossy(&out.stdout);
        let line = txt.lines().last().unwrap_or("");
        let v: Value = match serde_json::from_str(line) {
            Ok(v) => v,
            Err(_) => {
                // the inner process died: the muxer aborted the process on some sequence (not attributable here)
                machinery_failure(&format!("C17 inner run ({}) died: status {:?}, stderr tail: {}", profile, out.status, String::from_utf8_lossy(&out.stderr).chars().rev().take(400).collect::<String>().chars().rev().collect::<String>()));
            }
        };
        evals += v["evaluations"].as_u64().unwrap_or(0);
        trans += v["transitions"].as_u64().unwrap_or(0);
        valid += v["validated"].as_u64().unwrap_or(0);
        nontriv += v["nontrivial"].as_u64().unwrap_or(0);
        outcomes.insert(v["profile"].as_str().unwrap_or(profile).to_string(), v["outcomes"].clone());
        families = v["families"].clone();
        for c in v["classes"].as_array().cloned().unwrap_or_default() {
            let n = c["n"].as_u64().unwrap_or(1);
            let firsts: Vec<Violation> = c["first"].as_array().cloned().unwrap_or_default().iter().filter_map(Violation::from_json).collect();
            let k = firsts.len() as u64;
            for (i, mut vi) in firsts.into_iter().enumerate() {
                vi.case["profile"] = json!(profile);
                if i == 0 {
                    rep.report_n(vi, n.saturating_sub(k - 1).max(1));
                } else {
                    rep.report(vi);
                }
            }
        }
    }
    ev.set("evaluations", json!(evals));
    ev.set("states", json!(evals));
    ev.set("transitions", json!(trans));
    ev.set("traces_validated_against_impl", json!(valid));
    ev.set("distinct_nontrivial", json!(nontriv));
    ev.set("rule", json!("one case = one (configuration, sequence of add_track/write_sample calls, closed by write_end) driven through the real muxer in one build profile; sequences are enumerated by mixed-radix index; non-trivial = at least one call was made and either some call returned Err or every call succeeded and the output was judged by the C01/C02 oracles"));
    ev.set("exhaustive", json!(true));
    ev.set("outcome_classes", Value::Object(outcomes));
    ev.set("families", families);
    ev.set("profiles", json!(["checked (overflow-checks, debug-assertions)", "wrapping (plain release)"]));
    ev.set("bound", json!("all call sequences of length <= max_len over each configuration's alphabet; configurations: timescales {0,1,1000,2^32-1}^2 x 5 kinds, SPS/PPS lengths 0..4, 8 language strings x 2 kinds with arbitrary brand bytes, add_track after samples with 3 kinds, maximal durations; plus 6 explicit sequences with samples of 2^24-1, 2^24, 2^24+1 bytes"));
    ev.set("samples", json!([
        {"config": "timescales:avc:T=0:M=1000", "calls": ["add_track 0", "write_sample(1, size 1, dur 500)"], "expect": "no panic"},
        {"config": "param_sets:sps=2,pps=0", "calls": ["add_track 0"], "expect": "Err, not an index panic"},
        {"config": "big_sample:aac:16777216", "expect": "write_end does not trip write_u24"}
    ]));
    conclude(&ev, &rep)
}
