//! C16 — code and enumeration mappings are exact over their whole domain (engine E4: complete loops).

use crate::common::*;
use mp4::*;
use rayon::prelude::*;
use serde_json::json;
use std::convert::TryFrom;
use std::io::Cursor;
use std::sync::atomic::{AtomicU64, Ordering};

/// Four-character names as the standards give them (14496-12/-14/-15, VP-codec binding, QuickTime
/// metadata), paired with the library's enumeration variant.  Written from the names, not from
/// the numeric table of the `boxtype!` macro.
fn named() -> Vec<([u8; 4], BoxType)> {
    vec![
        (*b"ftyp", BoxType::FtypBox),
        (*b"mvhd", BoxType::MvhdBox),
        (*b"mfhd", BoxType::MfhdBox),
        (*b"free", BoxType::FreeBox),
        (*b"mdat", BoxType::MdatBox),
        (*b"moov", BoxType::MoovBox),
        (*b"mvex", BoxType::MvexBox),
        (*b"mehd", BoxType::MehdBox),
        (*b"trex", BoxType::TrexBox),
        (*b"emsg", BoxType::EmsgBox),
        (*b"moof", BoxType::MoofBox),
        (*b"tkhd", BoxType::TkhdBox),
        (*b"tfhd", BoxType::TfhdBox),
        (*b"tfdt", BoxType::TfdtBox),
        (*b"edts", BoxType::EdtsBox),
        (*b"mdia", BoxType::MdiaBox),
        (*b"elst", BoxType::ElstBox),
        (*b"mdhd", BoxType::MdhdBox),
        (*b"hdlr", BoxType::HdlrBox),
        (*b"minf", BoxType::MinfBox),
        (*b"vmhd", BoxType::VmhdBox),
        (*b"stbl", BoxType::StblBox),
        (*b"stsd", BoxType::StsdBox),
        (*b"stts", BoxType::SttsBox),
        (*b"ctts", BoxType::CttsBox),
        (*b"stss", BoxType::StssBox),
        (*b"stsc", BoxType::StscBox),
        (*b"stsz", BoxType::StszBox),
        (*b"stco", BoxType::StcoBox),
        (*b"co64", BoxType::Co64Box),
        (*b"trak", BoxType::TrakBox),
        (*b"traf", BoxType::TrafBox),
        (*b"trun", BoxType::TrunBox),
        (*b"udta", BoxType::UdtaBox),
        (*b"meta", BoxType::MetaBox),
        (*b"dinf", BoxType::DinfBox),
        (*b"dref", BoxType::DrefBox),
        (*b"url ", BoxType::UrlBox),
        (*b"smhd", BoxType::SmhdBox),
        (*b"avc1", BoxType::Avc1Box),
        (*b"avcC", BoxType::AvcCBox),
        (*b"hev1", BoxType::Hev1Box),
        (*b"hvcC", BoxType::HvcCBox),
        (*b"mp4a", BoxType::Mp4aBox),
        (*b"esds", BoxType::EsdsBox),
        (*b"tx3g", BoxType::Tx3gBox),
        (*b"vpcC", BoxType::VpccBox),
        (*b"vp09", BoxType::Vp09Box),
        (*b"data", BoxType::DataBox),
        (*b"ilst", BoxType::IlstBox),
        ([0xa9, b'n', b'a', b'm'], BoxType::NameBox),
        ([0xa9, b'd', b'a', b'y'], BoxType::DayBox),
        (*b"covr", BoxType::CovrBox),
        (*b"desc", BoxType::DescBox),
        (*b"wide", BoxType::WideBox),
        (*b"wave", BoxType::WaveBox),
    ]
}

struct Cnt {
    evals: AtomicU64,
}

fn mdhd_bytes(code: u16) -> Vec<u8> {
    let mut b = vec![0, 0, 0, 32];
    b.extend_from_slice(b"mdhd");
    b.extend_from_slice(&[0, 0, 0, 0]); // version, flags
    b.extend_from_slice(&[0; 4]); // creation
    b.extend_from_slice(&[0; 4]); // modification
    b.extend_from_slice(&1000u32.to_be_bytes());
    b.extend_from_slice(&[0; 4]); // duration
    b.extend_from_slice(&code.to_be_bytes());
    b.extend_from_slice(&[0, 0]);
    b
}

pub fn run(tier: Tier, seed: u64) -> i32 {
    // every mapping is total over its domain: a panic anywhere in the sweeps is a violation (reported with the panic
    // site; the small enumerations report the exact value themselves), not a failure of the machinery
    match guard(|| run_inner(tier, seed)) {
        Ok(code) => code,
        Err(p) => {
            let rep = Reporter::new("C16");
            rep.report(Violation::new("C16", "mapping_panicked", json!({"engine": "domain_sweep"})).tag("panic").obs(json!(short_loc(&p))));
            let mut ev = Evidence::new("C16", tier, seed, "model_checking");
            ev.set("evaluations", json!(0));
            ev.set("exhaustive", json!(false));
            ev.set("caps_hit", json!(["a mapping panicked during a sweep; the sweep was abandoned"]));
            ev.set("samples", json!([short_loc(&p)]));
            conclude(&ev, &rep)
        }
    }
}

fn run_inner(tier: Tier, seed: u64) -> i32 {
    let mut ev = Evidence::new("C16", tier, seed, "model_checking");
    let rep = Reporter::new("C16");
    let cnt = Cnt { evals: AtomicU64::new(0) };
    let outcomes = Histo::default();

    let table = named();
    let mut by_code: std::collections::HashMap<u32, BoxType> = std::collections::HashMap::new();
    for (n, v) in table.iter() {
        by_code.insert(u32::from_be_bytes(*n), *v);
    }
    if by_code.len() != table.len() {
        machinery_failure("C16 name table has duplicate codes");
    }

    // ---- 1. all 2^32 codes: numeric round trips and text round trip --------------------------
    const CHUNK: u64 = 1 << 20;
    let nchunks = (1u64 << 32) / CHUNK;
    #[derive(Default)]
    struct Acc {
        named_hits: u64,
        unknown: u64,
        text_ok: u64,
        text_fail_nonutf8: u64,
        first_nonutf8: Option<u32>,
        viol: Vec<Violation>,
    }
    let acc = (0..nchunks)
        .into_par_iter()
        .map(|c| {
            let mut a = Acc::default();
            let mut s = String::with_capacity(16);
            for x in (c * CHUNK)..((c + 1) * CHUNK) {
                let x = x as u32;
                let bt = BoxType::from(x);
                let back: u32 = bt.into();
                if back != x {
                    a.viol.push(
                        Violation::new("C16", "boxtype_numeric_roundtrip", json!({"code": x}))
                            .obs(json!(back))
                            .exp(json!(x)),
                    );
                }
                match by_code.get(&x) {
                    Some(v) => {
                        a.named_hits += 1;
                        if bt != *v {
                            a.viol.push(
                                Violation::new("C16", "boxtype_named_variant", json!({"code": x}))
                                    .obs(json!(format!("{:?}", bt)))
                                    .exp(json!(format!("{:?}", v))),
                            );
                        }
                    }
                    None => {
                        a.unknown += 1;
                        if bt != BoxType::UnknownBox(x) {
                            a.viol.push(
                                Violation::new("C16", "boxtype_unknown_only_outside_table", json!({"code": x}))
                                    .obs(json!(format!("{:?}", bt)))
                                    .exp(json!("UnknownBox")),
                            );
                        }
                    }
                }
                let fc = FourCC::from(x);
                let n2: u32 = fc.into();
                let n3: u32 = (&fc).into();
                let fc2 = FourCC::from(bt);
                let n4: u32 = fc2.into();
                if fc.value != x.to_be_bytes() || n2 != x || n3 != x || n4 != x || FourCC::from(x.to_be_bytes()) != fc {
                    a.viol.push(
                        Violation::new("C16", "fourcc_numeric_roundtrip", json!({"code": x}))
                            .obs(json!([fc.value, n2, n3, n4])),
                    );
                }
                // text
                s.clear();
                use std::fmt::Write;
                let _ = write!(s, "{}", fc);
                let ok = match s.parse::<FourCC>() {
                    Ok(p) => p == fc,
                    Err(_) => false,
                };
                if ok {
                    a.text_ok += 1;
                } else if std::str::from_utf8(&fc.value).is_err() {
                    a.text_fail_nonutf8 += 1;
                    if a.first_nonutf8.is_none() {
                        a.first_nonutf8 = Some(x);
                    }
                } else {
                    a.viol.push(
                        Violation::new("C16", "fourcc_text_roundtrip", json!({"code": x}))
                            .tag("code_bytes_valid_utf8")
                            .obs(json!(s.clone())),
                    );
                }
            }
            a
        })
        .reduce(Acc::default, |mut a, b| {
            a.named_hits += b.named_hits;
            a.unknown += b.unknown;
            a.text_ok += b.text_ok;
            a.text_fail_nonutf8 += b.text_fail_nonutf8;
            if a.first_nonutf8.is_none() {
                a.first_nonutf8 = b.first_nonutf8;
            }
            if a.viol.len() < 64 {
                a.viol.extend(b.viol.into_iter().take(64));
            }
            a
        });
    cnt.evals.fetch_add(1u64 << 32, Ordering::Relaxed);
    outcomes.add("code:named", acc.named_hits);
    outcomes.add("code:unknown", acc.unknown);
    outcomes.add("text:roundtrip_ok", acc.text_ok);
    outcomes.add("text:lossy_nonutf8", acc.text_fail_nonutf8);
    for v in acc.viol {
        rep.report(v);
    }
    if acc.text_fail_nonutf8 > 0 {
        let x = acc.first_nonutf8.unwrap();
        rep.report_n(
            Violation::new("C16", "fourcc_text_roundtrip", json!({"code": x, "bytes": x.to_be_bytes()}))
                .tag("code_bytes_not_valid_utf8")
                .obs(json!(format!("{}", FourCC::from(x))))
                .exp(json!("a text form from which FromStr recovers the same code")),
            acc.text_fail_nonutf8,
        );
    }
    if acc.named_hits != table.len() as u64 {
        machinery_failure("C16 named-hit count mismatch");
    }

    // ---- 2. FromStr over every 4-symbol ASCII string; other lengths rejected ------------------
    let from_str_bad = (0..128u32)
        .into_par_iter()
        .map(|a| {
            let mut bad = vec![];
            let mut buf = [0u8; 4];
            buf[0] = a as u8;
            for b in 0..128u8 {
                buf[1] = b;
                for c in 0..128u8 {
                    buf[2] = c;
                    for d in 0..128u8 {
                        buf[3] = d;
                        let s = std::str::from_utf8(&buf).unwrap();
                        match s.parse::<FourCC>() {
                            Ok(f) if f.value == buf => {}
                            _ => {
                                if bad.len() < 4 {
                                    bad.push(buf);
                                }
                            }
                        }
                    }
                }
            }
            bad
        })
        .flatten()
        .collect::<Vec<_>>();
    cnt.evals.fetch_add(128 * 128 * 128 * 128, Ordering::Relaxed);
    outcomes.add("fromstr:ascii4_accepted", 128u64.pow(4) - from_str_bad.len() as u64);
    for b in from_str_bad {
        rep.report(Violation::new("C16", "fourcc_fromstr_ascii", json!({"bytes": b})));
    }
    // other lengths: all strings of 0..=3 and 5..=6 symbols over a small alphabet incl. multi-byte chars
    let syms = ["a", "Z", " ", "\u{a9}", "\u{65e5}", "\u{1F600}", "\0"];
    let mut rejected = 0u64;
    let mut accepted4 = 0u64;
    for len in 0..=6usize {
        let total = (syms.len() as u64).pow(len as u32);
        for idx in 0..total {
            let mut s = String::new();
            let mut i = idx;
            for _ in 0..len {
                s.push_str(syms[(i % syms.len() as u64) as usize]);
                i /= syms.len() as u64;
            }
            let r = s.parse::<FourCC>();
            cnt.evals.fetch_add(1, Ordering::Relaxed);
            // Oracle that does not prescribe which non-ASCII spellings are accepted: whatever is accepted must
            // print back as the same string (text -> code -> text is lossless), pure-ASCII four-symbol strings
            // must be accepted as their bytes, and a string that has neither 4 bytes nor 4 characters is rejected.
            match r {
                Ok(f) => {
                    if format!("{}", f) != s {
                        rep.report(Violation::new("C16", "fourcc_fromstr_then_display", json!({"str": s})).obs(json!(format!("{}", f))));
                    } else if s.len() != 4 && s.chars().count() != 4 {
                        rep.report(Violation::new("C16", "fourcc_fromstr_rejects_other_lengths", json!({"str": s})));
                    } else {
                        accepted4 += 1;
                    }
                }
                Err(_) => {
                    if s.is_ascii() && s.len() == 4 {
                        rep.report(Violation::new("C16", "fourcc_fromstr_len4", json!({"str": s})));
                    } else {
                        rejected += 1;
                    }
                }
            }
        }
    }
    outcomes.add("fromstr:rejected", rejected);
    outcomes.add("fromstr:accepted_and_prints_back", accepted4);

    // ---- 3. language codes ------------------------------------------------------------------
    let mut lang_ok = 0u64;
    for code in 0..=u16::MAX {
        cnt.evals.fetch_add(1, Ordering::Relaxed);
        let bytes = mdhd_bytes(code);
        let mut cur = Cursor::new(&bytes[..]);
        let r = guard(|| {
            BoxHeader::read(&mut cur).and_then(|h| MdhdBox::read_box(&mut cur, h.size))
        });
        let exp: String = [10u16, 5, 0].iter().map(|sh| (((code >> sh) & 0x1f) as u8 + 0x60) as char).collect();
        match r {
            Ok(Ok(b)) => {
                if b.language != exp {
                    rep.report(
                        Violation::new("C16", "language_decode", json!({"code": code})).obs(json!(b.language)).exp(json!(exp)),
                    );
                    continue;
                }
                let mut out = vec![];
                match guard(|| b.write_box(&mut out)) {
                    Ok(Ok(_)) => {
                        let back = u16::from_be_bytes([out[28], out[29]]);
                        if back != code & 0x7fff {
                            rep.report(
                                Violation::new("C16", "language_reencode", json!({"code": code}))
                                    .obs(json!(back))
                                    .exp(json!(code & 0x7fff)),
                            );
                        } else {
                            lang_ok += 1;
                        }
                    }
                    o => rep.report(
                        Violation::new("C16", "language_reencode", json!({"code": code})).obs(json!(format!("{:?}", o.map(|r| r.map_err(|e| e.to_string()))))),
                    ),
                }
            }
            o => rep.report(
                Violation::new("C16", "language_decode", json!({"code": code}))
                    .obs(json!(format!("{:?}", o.map(|r| r.map(|_| ()).map_err(|e| e.to_string()))))),
            ),
        }
    }
    outcomes.add("language:code_roundtrip_ok", lang_ok);
    let mut lang_s_ok = 0u64;
    for a in b'a'..=b'z' {
        for b in b'a'..=b'z' {
            for c in b'a'..=b'z' {
                cnt.evals.fetch_add(1, Ordering::Relaxed);
                let s = String::from_utf8(vec![a, b, c]).unwrap();
                let m = MdhdBox { language: s.clone(), timescale: 1, ..MdhdBox::default() };
                let mut out = vec![];
                let r = guard(|| m.write_box(&mut out));
                let exp = (((a - 0x60) as u16) << 10) | (((b - 0x60) as u16) << 5) | (c - 0x60) as u16;
                if !matches!(r, Ok(Ok(_))) || out.len() != 32 || u16::from_be_bytes([out[28], out[29]]) != exp {
                    rep.report(Violation::new("C16", "language_encode", json!({"lang": s})).exp(json!(exp)));
                    continue;
                }
                let mut cur = Cursor::new(&out[..]);
                let r = guard(|| BoxHeader::read(&mut cur).and_then(|h| MdhdBox::read_box(&mut cur, h.size)));
                match r {
                    Ok(Ok(b2)) if b2.language == s => lang_s_ok += 1,
                    _ => rep.report(Violation::new("C16", "language_string_roundtrip", json!({"lang": s}))),
                }
            }
        }
    }
    outcomes.add("language:string_roundtrip_ok", lang_s_ok);

    // ---- 4. fixed point wrappers -------------------------------------------------------------
    let mut fp_ok = 0u64;
    for v in 0..=u8::MAX {
        let f = FixedPointU8::new(v);
        if f.value() != v || f.raw_value() != (v as u16) << 8 || f != FixedPointU8::new_raw((v as u16) << 8) {
            rep.report(Violation::new("C16", "fixed_u8_new", json!({"v": v})));
        } else {
            fp_ok += 1;
        }
        let vi = v as i8;
        let f = FixedPointI8::new(vi);
        if f.value() != vi || f.raw_value() != (vi as i16) * 256 {
            rep.report(Violation::new("C16", "fixed_i8_new", json!({"v": vi})));
        } else {
            fp_ok += 1;
        }
    }
    for r in 0..=u16::MAX {
        let f = FixedPointU8::new_raw(r);
        if f.raw_value() != r || f.value() != (r >> 8) as u8 {
            rep.report(Violation::new("C16", "fixed_u8_raw", json!({"r": r})).obs(json!([f.raw_value(), f.value()])));
        } else {
            fp_ok += 1;
        }
        let ri = r as i16;
        let f = FixedPointI8::new_raw(ri);
        let trunc = (ri / 256) as i8;
        if f.raw_value() != ri || f.value() != trunc {
            rep.report(Violation::new("C16", "fixed_i8_raw", json!({"r": ri})).obs(json!([f.raw_value(), f.value()])));
        } else {
            fp_ok += 1;
        }
        let f = FixedPointU16::new(r);
        if f.value() != r || f.raw_value() != (r as u32) << 16 {
            rep.report(Violation::new("C16", "fixed_u16_new", json!({"v": r})));
        } else {
            fp_ok += 1;
        }
    }
    cnt.evals.fetch_add(2 * 256 + 3 * 65536, Ordering::Relaxed);
    let bad16: Vec<u32> = (0..(1u64 << 32) / CHUNK)
        .into_par_iter()
        .map(|c| {
            let mut bad = vec![];
            for x in (c * CHUNK)..((c + 1) * CHUNK) {
                let r = x as u32;
                let f = FixedPointU16::new_raw(r);
                if f.raw_value() != r || f.value() != (r >> 16) as u16 {
                    if bad.len() < 2 {
                        bad.push(r);
                    }
                }
            }
            bad
        })
        .flatten()
        .collect();
    cnt.evals.fetch_add(1u64 << 32, Ordering::Relaxed);
    fp_ok += (1u64 << 32) - bad16.len() as u64;
    for r in bad16.into_iter().take(8) {
        rep.report(Violation::new("C16", "fixed_u16_raw", json!({"r": r})));
    }
    outcomes.add("fixed:ok", fp_ok);

    // ---- 5. enumerations ---------------------------------------------------------------------
    // 14496-3 Table 1.17 (object types the library names), 1.18, 1.19
    let aot_valid = |v: u8| (1..=9).contains(&v) || (12..=17).contains(&v) || (19..=30).contains(&v) || (32..=46).contains(&v);
    let freqs: [u32; 13] = [96000, 88200, 64000, 48000, 44100, 32000, 24000, 22050, 16000, 12000, 11025, 8000, 7350];
    let mut enum_acc = 0u64;
    let mut enum_rej = 0u64;
    for v in 0..=u8::MAX {
        cnt.evals.fetch_add(3, Ordering::Relaxed);
        // a mapping that panics on a value of its domain is reported with that value
        let panics: Vec<&str> = [("audio_object_type", guard(|| AudioObjectType::try_from(v).is_ok()).is_err()), ("sample_freq_index", guard(|| SampleFreqIndex::try_from(v).is_ok()).is_err()), ("channel_config", guard(|| ChannelConfig::try_from(v).is_ok()).is_err())]
            .iter()
            .filter(|(_, p)| *p)
            .map(|(n, _)| *n)
            .collect();
        if !panics.is_empty() {
            for n in panics {
                rep.report(Violation::new("C16", n, json!({"v": v})).tag("panic").obs(json!("try_from panicked")));
            }
            continue;
        }
        match AudioObjectType::try_from(v) {
            Ok(t) if aot_valid(v) && t as u8 == v => enum_acc += 1,
            Err(_) if !aot_valid(v) => enum_rej += 1,
            o => rep.report(Violation::new("C16", "audio_object_type", json!({"v": v})).obs(json!(format!("{:?}", o.map_err(|e| e.to_string()))))),
        }
        match SampleFreqIndex::try_from(v) {
            Ok(t) if v <= 12 && t as u8 == v && t.freq() == freqs[v as usize] => enum_acc += 1,
            Err(_) if v > 12 => enum_rej += 1,
            o => rep.report(Violation::new("C16", "sample_freq_index", json!({"v": v})).obs(json!(format!("{:?}", o.map_err(|e| e.to_string()))))),
        }
        match ChannelConfig::try_from(v) {
            Ok(t) if (1..=7).contains(&v) && t as u8 == v => enum_acc += 1,
            Err(_) if !(1..=7).contains(&v) => enum_rej += 1,
            o => rep.report(Violation::new("C16", "channel_config", json!({"v": v})).obs(json!(format!("{:?}", o.map_err(|e| e.to_string()))))),
        }
    }
    // AvcProfile over all 2^16 (profile_idc, compatibility) pairs — 14496-10 Annex A
    for p in 0..=u8::MAX {
        for c in 0..=u8::MAX {
            cnt.evals.fetch_add(1, Ordering::Relaxed);
            let cs1 = (c >> 6) & 1 == 1; // constraint_set1_flag: second most significant bit
            let exp = match p {
                66 if cs1 => Some(AvcProfile::AvcConstrainedBaseline),
                66 => Some(AvcProfile::AvcBaseline),
                77 => Some(AvcProfile::AvcMain),
                88 => Some(AvcProfile::AvcExtended),
                100 => Some(AvcProfile::AvcHigh),
                _ => None,
            };
            let got = AvcProfile::try_from((p, c)).ok();
            if got != exp {
                let mut v = Violation::new("C16", "avc_profile", json!({"profile_idc": p, "compat": c}))
                    .obs(json!(format!("{:?}", got)))
                    .exp(json!(format!("{:?}", exp)));
                if p == 66 && cs1 {
                    v = v.tag("baseline_with_constraint_set1");
                }
                rep.report(v);
            } else if exp.is_some() {
                enum_acc += 1;
            } else {
                enum_rej += 1;
            }
        }
    }
    // DataType and TrackType over all 2^32
    #[derive(Default)]
    struct E {
        acc: u64,
        rej: u64,
        viol: Vec<Violation>,
    }
    let e = (0..nchunks)
        .into_par_iter()
        .map(|c| {
            let mut e = E::default();
            for x in (c * CHUNK)..((c + 1) * CHUNK) {
                let x = x as u32;
                let dt_valid = matches!(x, 0 | 1 | 13 | 21);
                match DataType::try_from(x) {
                    Ok(t) if dt_valid && t.clone() as u32 == x => e.acc += 1,
                    Err(_) if !dt_valid => e.rej += 1,
                    _ => e.viol.push(Violation::new("C16", "data_type", json!({"v": x}))),
                }
                let fc = FourCC::from(x);
                let exp = match &fc.value {
                    b"vide" => Some(TrackType::Video),
                    b"soun" => Some(TrackType::Audio),
                    b"sbtl" => Some(TrackType::Subtitle),
                    _ => None,
                };
                let got = TrackType::try_from(&fc).ok();
                if got != exp {
                    e.viol.push(Violation::new("C16", "track_type_from_fourcc", json!({"code": x})));
                } else if let Some(t) = got {
                    e.acc += 1;
                    let back: FourCC = t.into();
                    if back != fc {
                        e.viol.push(Violation::new("C16", "track_type_to_fourcc", json!({"code": x})));
                    }
                } else {
                    e.rej += 1;
                }
            }
            e
        })
        .reduce(E::default, |mut a, b| {
            a.acc += b.acc;
            a.rej += b.rej;
            if a.viol.len() < 16 {
                a.viol.extend(b.viol.into_iter().take(16));
            }
            a
        });
    cnt.evals.fetch_add(1u64 << 33, Ordering::Relaxed);
    enum_acc += e.acc;
    enum_rej += e.rej;
    for v in e.viol {
        rep.report(v);
    }
    // TrackType / MediaType textual mappings: every string up to 4 symbols over the letters the names use
    let tt_names = [("vide", TrackType::Video), ("soun", TrackType::Audio), ("sbtl", TrackType::Subtitle)];
    let mt_names = [
        ("h264", MediaType::H264),
        ("h265", MediaType::H265),
        ("vp9", MediaType::VP9),
        ("aac", MediaType::AAC),
        ("ttxt", MediaType::TTXT),
    ];
    let letters: Vec<char> = "videsounbtlh2645p9acxVA ".chars().collect();
    for len in 0..=4usize {
        let total = (letters.len() as u64).pow(len as u32);
        for idx in 0..total {
            let mut s = String::new();
            let mut i = idx;
            for _ in 0..len {
                s.push(letters[(i % letters.len() as u64) as usize]);
                i /= letters.len() as u64;
            }
            cnt.evals.fetch_add(2, Ordering::Relaxed);
            let exp_t = tt_names.iter().find(|(n, _)| *n == s).map(|(_, t)| *t);
            let got_t = TrackType::try_from(s.as_str()).ok();
            if exp_t != got_t {
                rep.report(Violation::new("C16", "track_type_from_str", json!({"str": s})));
            } else if got_t.is_some() {
                enum_acc += 1;
            } else {
                enum_rej += 1;
            }
            let exp_m = mt_names.iter().find(|(n, _)| *n == s).map(|(_, t)| *t);
            let got_m = MediaType::try_from(s.as_str()).ok();
            if exp_m != got_m {
                rep.report(Violation::new("C16", "media_type_from_str", json!({"str": s})));
            } else if let Some(m) = got_m {
                enum_acc += 1;
                let back: &str = m.into();
                let back2: &str = (&m).into();
                if back != s || back2 != s || format!("{}", m) != s {
                    rep.report(Violation::new("C16", "media_type_to_str", json!({"str": s})));
                }
            } else {
                enum_rej += 1;
            }
        }
    }
    outcomes.add("enum:accepted", enum_acc);
    outcomes.add("enum:rejected", enum_rej);

    let evals = cnt.evals.load(Ordering::Relaxed);
    ev.set("evaluations", json!(evals));
    ev.set("states", json!(evals));
    ev.set("transitions", json!(evals));
    ev.set("traces_validated_against_impl", json!(evals));
    ev.set("distinct_nontrivial", json!(evals));
    ev.set("rule", json!("every element of each mapping's complete finite domain is one case; all are distinct by construction (loop index) and each is judged against a table transcribed from the standards"));
    ev.set("exhaustive", json!(true));
    ev.set("outcome_classes", outcomes.to_json());
    ev.set("bound", json!("complete domains: 2^32 four-character codes (numeric, enumeration, text), 128^4 ASCII strings + all strings of 0..6 symbols over a 7-symbol alphabet for FromStr, 2^16 language codes + 26^3 language strings, FixedPoint U8/I8 (2^8 new, 2^16 raw), U16 (2^16 new, 2^32 raw), u8 enum mappings (256 each), 2^16 AVC (profile, compatibility) pairs, 2^32 DataType values, 2^32 handler codes, all strings <=4 over 24 letters for TrackType/MediaType names"));
    ev.set("samples", json!([
        {"code": "0x6d6f6f76", "expect": "MoovBox <-> 'moov'"},
        {"code": "0xa96e616d", "expect": "NameBox; text form is lossy (known finding)"},
        {"language_code": 0x15c7, "expect": "eng"},
        {"avc": [66, 0x40], "expect": "Constrained Baseline"},
        {"fixed_u16_raw": 0x00480000u32, "expect": "value 72"}
    ]));
    ev.assume("tables for names and enumerations are transcribed by hand from ISO/IEC 14496-12/-3/-10 and the QuickTime metadata keys");
    conclude(&ev, &rep)
}
