//! C04 — box encode/decode are mutually inverse and size-exact (engine E2 over shapes x values).

use crate::boxgen::*;
use crate::common::*;
use crate::hist::Local;
use rayon::prelude::*;
use serde_json::{json, Value};

pub fn merge(a: &mut Local, b: Local) {
    a.evaluations += b.evaluations;
    a.transitions += b.transitions;
    a.validated += b.validated;
    a.nontrivial += b.nontrivial;
    for (k, v) in b.outcomes {
        *a.outcomes.entry(k).or_insert(0) += v;
    }
    a.violations.merge(b.violations);
}

fn judge(c: &dyn BoxCase, l: &mut Local) {
    l.evaluations += 1;
    let t = c.type_name();
    let case = || json!({"engine": "box", "box": c.describe()});
    let before = l.violations.len();
    let mk = |clause: &str| Violation::new("C04", clause, case()).tag(t);
    // ---- encode: size-exact, header carries size and own code
    let enc = c.lib_encode();
    l.transitions += 1;
    match &enc {
        Err(e) => {
            if !c.decode_only() {
                l.violations.push(mk("encode_failed_for_representable_value").obs(json!(e)));
            }
        }
        Ok((ret, bytes)) => {
            let len = bytes.len() as u64;
            if *ret != len || c.lib_box_size() != len {
                l.violations.push(mk("write_box_count_and_box_size_equal_bytes_written").obs(json!({"returned": ret, "box_size": c.lib_box_size(), "bytes_written": len})));
            }
            if bytes.len() >= 8 {
                let hs = u32::from_be_bytes([bytes[0], bytes[1], bytes[2], bytes[3]]) as u64;
                if hs != len {
                    l.violations.push(mk("header_size_field").obs(json!({"header": hs, "bytes_written": len})));
                }
                if bytes[4..8] != c.cc() || c.lib_box_type() != u32::from_be_bytes(c.cc()) {
                    l.violations.push(mk("header_type_code").obs(json!({"written": hex(&bytes[4..8]), "box_type()": format!("{:08x}", c.lib_box_type())})).exp(json!(hex(&c.cc()))));
                }
            }
            // ---- decode what was encoded: equal value, stream left exactly at the end, also with siblings behind
            if l.violations.len() == before {
                // (trailing sibling bytes, leading sibling bytes): the box need not start at stream position 0
                for (trailing, lead) in [(0usize, 0usize), (1, 0), (9, 0), (0, 8), (9, 13)] {
                    let mut b = bytes.clone();
                    b.extend((0..trailing).map(|i| [0, 0, 0, 9, b'f', b'r', b'e', b'e', 0x11][i % 9]));
                    let leadb: Vec<u8> = (0..lead).map(|i| [0, 0, 0, 8, b'f', b'r', b'e', b'e', 0x22, 0x33, 0x44, 0x55, 0x66][i % 13]).collect();
                    l.transitions += 1;
                    match c.lib_decode_eq_at(&leadb, &b) {
                        Ok((eq, pos, shown)) => {
                            if !eq {
                                l.violations.push(mk("decode_of_encoded_differs").obs(json!({"trailing": trailing, "leading": lead, "decoded": if shown.len() > 1200 { shown[..1200].to_string() } else { shown }})));
                                break;
                            }
                            if pos != len {
                                l.violations.push(mk("decode_leaves_stream_off_the_box_end").obs(json!({"trailing": trailing, "leading": lead, "position": pos, "box_len": len})));
                                break;
                            }
                        }
                        Err(e) => {
                            l.violations.push(mk("decode_of_encoded_failed").obs(json!({"trailing": trailing, "leading": lead, "error": e})));
                            break;
                        }
                    }
                }
            }
        }
    }
    // ---- the reference bytes through a stream that transfers 1 / 3 bytes per read call: same value, same end position
    {
        let rb = c.ref_bytes(false);
        for k in [1usize, 3] {
            l.transitions += 1;
            match c.lib_decode_eq_trickle(&rb, k) {
                Ok((true, pos, _)) if pos == rb.len() as u64 => {}
                Ok((eq, pos, _)) => l.violations.push(mk("decode_through_short_reads_differs").obs(json!({"bytes_per_read": k, "equal": eq, "position": pos, "len": rb.len()}))),
                Err(e) => l.violations.push(mk("decode_through_short_reads_failed").obs(json!({"bytes_per_read": k, "error": e}))),
            }
        }
    }
    // ---- converse: accepted bytes whose re-encoding succeeds re-decode to the same value
    for large in [false, true] {
        let rb = c.ref_bytes(large);
        l.transitions += 1;
        match c.lib_fixpoint(&rb) {
            Ok(Some(false)) => l.violations.push(mk("reencoding_is_not_a_fixpoint").obs(json!({"input_hex": hex(&rb[..rb.len().min(512)]), "large_header": large}))),
            Ok(_) => {}
            Err(e) => l.violations.push(mk("reencoding_fixpoint_error").obs(json!({"error": e, "large_header": large}))),
        }
    }
    l.validated += 1;
    if l.violations.len() == before {
        l.outcome(&format!("ok:{}", t));
        l.nontrivial += 1;
    } else {
        l.outcome(&format!("VIOLATION:{}", t));
    }
}

pub fn run(tier: Tier, seed: u64) -> i32 {
    let mut ev = Evidence::new("C04", tier, seed, "model_checking");
    let rep = Reporter::new("C04");
    let cases = all_cases(tier);
    let mut per_type: std::collections::BTreeMap<&'static str, u64> = Default::default();
    for c in cases.iter() {
        *per_type.entry(c.type_name()).or_insert(0) += 1;
    }
    // library values need not be Send/Sync: every shard regenerates the (deterministic) case list and judges its own slice
    const SHARDS: usize = 16;
    let mut l = (0..SHARDS)
        .into_par_iter()
        .map(|shard| {
            let mut l = Local::default();
            for (i, c) in all_cases(tier).iter().enumerate() {
                if i % SHARDS == shard {
                    judge(c.as_ref(), &mut l);
                }
            }
            l
        })
        .reduce(Local::default, |mut a, b| {
            merge(&mut a, b);
            a
        });
    // converse clause on real bytes: every box of the canned (ffmpeg-produced) files that the library has a codec for
    let mut real = 0u64;
    fn walk(nodes: &[crate::refmp4::parse::Node], file: &[u8], name: &str, real: &mut u64, l: &mut Local) {
        for n in nodes {
            let bytes = &file[n.start as usize..n.start as usize + n.size];
            if let Some(r) = real_box_fixpoint(&n.cc, bytes) {
                *real += 1;
                l.evaluations += 1;
                l.transitions += 3;
                let cc = String::from_utf8_lossy(&n.cc).into_owned();
                let case = json!({"engine": "real_box", "file": name, "box": cc, "at": n.start, "input_hex": hex(&bytes[..bytes.len().min(600)])});
                match r {
                    Ok(Some(true)) | Ok(None) => {
                        l.nontrivial += 1;
                        l.outcome("ok:real_box");
                    }
                    Ok(Some(false)) => l.violations.push(Violation::new("C04", "reencoding_is_not_a_fixpoint", case).tag(&cc).tag("real_file")),
                    Err(e) => l.violations.push(Violation::new("C04", "real_box_decode_or_reencode", case).tag(&cc).obs(json!(e))),
                }
            }
            walk(&n.kids, file, name, real, l);
        }
    }
    for name in ["minimal.mp4", "minimal_init.mp4", "minimal_fragment.m4s", "extended_audio_object_type.mp4", "big_buck_bunny_metadata.m4v"] {
        let file = crate::e3::canned(name);
        match crate::refmp4::parse::tree(&file, 0) {
            Ok(t) => walk(&t, &file, name, &mut real, &mut l),
            Err(e) => machinery_failure(&format!("reference parser rejects {}: {}", name, e)),
        }
    }
    ev.set("real_boxes_from_canned_files", json!(real));

    ev.set("evaluations", json!(l.evaluations));
    ev.set("states", json!(l.evaluations));
    ev.set("transitions", json!(l.transitions));
    ev.set("traces_validated_against_impl", json!(l.validated));
    ev.set("distinct_nontrivial", json!(l.nontrivial));
    ev.set("rule", json!("one case = one box value: a shape (version, gating flag bits, optional children, list lengths) x a value assignment (all-zero, all-ones at wire width, a fingerprint with distinct non-palindromic bytes per field, and one one-hot assignment per field); the value is encoded by the library, decoded back with 0, 1 and 9 trailing sibling bytes, and the reference encoding of the same value (32- and 64-bit header) is pushed through decode/encode/decode; non-trivial = all clauses held"));
    ev.set("cases_per_box_type", json!(per_type));
    ev.set("box_types", json!(per_type.len()));
    ev.set("exhaustive", json!(true));
    ev.set("outcome_classes", Value::Object(l.outcomes.iter().map(|(k, v)| (k.clone(), json!(v))).collect()));
    ev.set("samples", json!(cases.iter().step_by((cases.len() / 3).max(1)).take(3).map(|c| c.describe()).collect::<Vec<_>>()));
    ev.assume("'representable in the wire format' is made explicit per box (flag bits consistent with Option fields, trun vectors of length sample_count, strings valid UTF-8 without NUL, bit-field values within their width, stsc first_chunk increasing)");
    let v = std::mem::take(&mut l.violations);
    v.drain_into(&rep);
    conclude(&ev, &rep)
}
