//! C03 — sample lookup in non-fragmented files follows ISO sample-table semantics (engine E2).

use crate::common::*;
use crate::hist::Local;
use crate::mux::{open, read_one, sorted_track_ids, Got};
use crate::refmp4::movie::*;
use rayon::prelude::*;
use serde_json::{json, Value};

pub fn movie_json(m: &LMovie) -> Value {
    json!({"timescale": m.timescale, "mdat_first": m.mdat_first, "large_mdat": m.large_mdat, "mdat_open_ended": m.mdat_open_ended, "placement": m.placement,
        "tracks": m.tracks.iter().map(|t| json!({"id": t.id, "codec": format!("{:?}", t.codec), "timescale": t.timescale, "chunks": t.chunks,
            "samples": t.samples.iter().map(|s| json!([s.size, s.delta, s.cts, s.sync])).collect::<Vec<_>>(),
            "stsc_split": t.stsc_split, "stts_split": t.stts_split, "ctts_split": t.ctts_split, "co64": t.co64, "const_size": t.const_size, "ctts": t.ctts, "stss": t.stss, "stbl_order": t.stbl_order})).collect::<Vec<_>>()})
}

/// Compare every lookup of the library with the expectations derived from the logical movie.
/// `bytes`/`mdat_payload_pos` come from the (possibly transformed) reference encoding.
pub fn judge_file(prop: &str, family: &str, m: &LMovie, bytes: &[u8], mdat_payload_pos: u64, extra: Value, l: &mut Local) -> bool {
    l.evaluations += 1;
    let case = || {
        let mut c = json!({"engine": "shape", "family": family, "movie": movie_json(m), "extra": extra});
        if bytes.len() <= 4096 {
            c["input_hex"] = json!(hex(bytes));
        }
        c
    };
    let mut r = match open(bytes) {
        Ok(r) => r,
        Err(e) => {
            l.outcome("open_failed");
            l.violations.push(Violation::new(prop, "consistent_file_does_not_open", case()).obs(json!(e)));
            return false;
        }
    };
    l.validated += 1;
    let exp = expectations(m);
    let ids = sorted_track_ids(&r);
    let mut want: Vec<u32> = m.tracks.iter().map(|t| t.id).collect();
    want.sort();
    if ids != want {
        l.violations.push(Violation::new(prop, "track_ids", case()).obs(json!(ids)).exp(json!(want)));
        return false;
    }
    let mut ok = true;
    for (t, e) in m.tracks.iter().zip(exp.iter()) {
        let n = e.len() as u32;
        l.transitions += 1;
        match guard(|| r.sample_count(t.id)) {
            Ok(Ok(c)) if c == n => {}
            o => {
                ok = false;
                l.violations.push(Violation::new(prop, "sample_count", case()).obs(json!(format!("{:?}", o.map(|r| r.map_err(|e| e.to_string()))))).exp(json!({"track": t.id, "count": n})));
                continue;
            }
        }
        let mut ids: Vec<u32> = (0..=n + 2).collect();
        ids.push(u32::MAX);
        for k in ids {
            l.transitions += 2;
            let off = guard(|| r.sample_offset(t.id, k));
            let got = read_one(&mut r, t.id, k);
            if k >= 1 && k <= n {
                let x = &e[k as usize - 1];
                let want_off = mdat_payload_pos + x.rel_offset;
                match off {
                    Ok(Ok(o)) if o == want_off => {}
                    o => {
                        ok = false;
                        l.violations.push_with("sample_offset", &[], || Violation::new(prop, "sample_offset", case()).obs(json!({"track": t.id, "sample": k, "got": format!("{:?}", o.map(|r| r.map_err(|e| e.to_string())))})).exp(json!(want_off)));
                        break;
                    }
                }
                let clause = match &got {
                    Got::Some(g) if g.bytes != x.bytes => Some("sample_bytes"),
                    Got::Some(g) if g.start != x.start => Some("sample_start_time"),
                    Got::Some(g) if g.dur != x.duration => Some("sample_duration"),
                    Got::Some(g) if g.off != x.cts => Some("sample_composition_offset"),
                    Got::Some(g) if g.sync != x.sync => Some("sample_sync"),
                    Got::Some(_) => None,
                    Got::None => Some("sample_missing"),
                    Got::Err(_) => Some("sample_read_error"),
                    Got::Panic(_) => Some("sample_read_panic"),
                };
                if let Some(c) = clause {
                    ok = false;
                    l.violations.push_with(c, &[], || {
                        Violation::new(prop, c, case())
                            .obs(json!({"track": t.id, "sample": k, "got": got.to_json()}))
                            .exp(json!({"bytes": hex(&x.bytes[..x.bytes.len().min(16)]), "len": x.bytes.len(), "start": x.start, "dur": x.duration, "off": x.cts, "sync": x.sync}))
                    });
                    break;
                }
            } else {
                match got {
                    Got::Some(_) => {
                        ok = false;
                        l.violations.push(Violation::new(prop, "id_outside_range_yields_sample", case()).obs(json!({"track": t.id, "sample": k, "got": got.to_json()})));
                    }
                    Got::Panic(p) => {
                        ok = false;
                        l.violations.push(Violation::new(prop, "id_outside_range_panics", case()).obs(json!({"track": t.id, "sample": k, "panic": p})));
                    }
                    _ => {}
                }
                if let Err(p) = off {
                    ok = false;
                    l.violations.push(Violation::new(prop, "id_outside_range_panics", case()).obs(json!({"track": t.id, "sample": k, "panic": short_loc(&p)})));
                }
            }
        }
    }
    // the same reader asked again in other orders (backwards, zig-zag): a lookup must not depend on earlier lookups
    if ok {
        for (t, e) in m.tracks.iter().zip(exp.iter()) {
            let n = e.len() as u32;
            if n < 2 {
                continue;
            }
            let mut order: Vec<u32> = (1..=n).rev().collect();
            let (mut lo, mut hi) = (1u32, n);
            while lo <= hi {
                order.push(lo);
                if hi != lo {
                    order.push(hi);
                }
                lo += 1;
                hi -= 1;
            }
            for k in order {
                l.transitions += 2;
                let x = &e[k as usize - 1];
                let off = guard(|| r.sample_offset(t.id, k));
                let got = read_one(&mut r, t.id, k);
                let same = matches!(&off, Ok(Ok(o)) if *o == mdat_payload_pos + x.rel_offset) && matches!(&got, Got::Some(g) if g.bytes == x.bytes && g.start == x.start && g.dur == x.duration && g.off == x.cts && g.sync == x.sync);
                if !same {
                    ok = false;
                    l.violations.push_with("lookup_depends_on_earlier_lookups", &[], || Violation::new(prop, "lookup_depends_on_earlier_lookups", case()).obs(json!({"track": t.id, "sample": k, "offset": format!("{:?}", off.map(|r| r.map_err(|e| e.to_string()))), "got": got.to_json()})).exp(json!({"start": x.start, "dur": x.duration, "off": x.cts, "sync": x.sync})));
                    break;
                }
            }
        }
    }
    if ok {
        l.outcome(&format!("ok:{}", family));
    } else {
        l.outcome("VIOLATION");
    }
    ok
}

pub fn judge(prop: &str, family: &str, m: &LMovie, l: &mut Local) {
    let (bytes, pos) = encode(m);
    let total: usize = m.tracks.iter().map(|t| t.samples.len()).sum();
    let chunks: usize = m.tracks.iter().map(|t| t.chunks.len()).sum();
    if judge_file(prop, family, m, &bytes, pos, Value::Null, l) && total >= 2 && chunks >= 1 {
        l.nontrivial += 1;
    }
    if l.samples.is_empty() && total == 3 {
        l.samples.push(json!({"family": family, "movie": movie_json(m)}));
    }
}

/// Tables whose sizes exceed any materialisable file: only sample_count and sample_offset are compared (the mdat is empty).
pub fn judge_offsets(prop: &str, family: &str, m: &LMovie, l: &mut Local) {
    l.evaluations += 1;
    let (bytes, a) = crate::refmp4::tree::serialize(&nodes_opt(m, false));
    let pos = a["mdat"].1;
    let case = || json!({"engine": "shape", "family": family, "movie": movie_json(m), "input_hex": hex(&bytes), "extra": "offsets only: the sample payloads are not materialised"});
    let mut r = match open(&bytes) {
        Ok(r) => r,
        Err(e) => {
            l.outcome("open_failed");
            l.violations.push(Violation::new(prop, "consistent_file_does_not_open", case()).obs(json!(e)));
            return;
        }
    };
    l.validated += 1;
    let exp = expectations_opt(m, false);
    let mut ok = true;
    for (t, e) in m.tracks.iter().zip(exp.iter()) {
        l.transitions += 1;
        if !matches!(guard(|| r.sample_count(t.id)), Ok(Ok(c)) if c == e.len() as u32) {
            ok = false;
            l.violations.push(Violation::new(prop, "sample_count", case()).exp(json!({"track": t.id, "count": e.len()})));
            continue;
        }
        for (k, x) in e.iter().enumerate() {
            l.transitions += 1;
            let want = pos + x.rel_offset;
            match guard(|| r.sample_offset(t.id, k as u32 + 1)) {
                Ok(Ok(o)) if o == want => {}
                o => {
                    ok = false;
                    l.violations.push(Violation::new(prop, "sample_offset", case()).obs(json!({"track": t.id, "sample": k + 1, "got": format!("{:?}", o.map(|r| r.map_err(|e| e.to_string())))})).exp(json!(want)));
                    break;
                }
            }
        }
    }
    if ok {
        l.outcome(&format!("ok:{}", family));
        if m.tracks.iter().any(|t| t.samples.len() >= 2) {
            l.nontrivial += 1;
        }
    } else {
        l.outcome("VIOLATION");
    }
}

pub fn compositions(n: usize) -> Vec<Vec<u32>> {
    if n == 0 {
        return vec![vec![]];
    }
    let mut out = vec![];
    for mask in 0..(1u32 << (n - 1)) {
        let mut parts = vec![];
        let mut cur = 1u32;
        for i in 0..n - 1 {
            if (mask >> i) & 1 == 1 {
                parts.push(cur);
                cur = 1;
            } else {
                cur += 1;
            }
        }
        parts.push(cur);
        out.push(parts);
    }
    out
}

/// All split masks over the optional boundaries of `v` (positions where v[i] == v[i-1]).
pub fn split_masks<T: PartialEq>(v: &[T]) -> Vec<u32> {
    let ob = optional_boundaries(v);
    (0..(1u32 << ob.len().min(12)))
        .map(|bits| {
            let mut m = 0u32;
            for (j, &pos) in ob.iter().enumerate() {
                if (bits >> j) & 1 == 1 {
                    m |= 1 << pos;
                }
            }
            m
        })
        .collect()
}

fn vectors<T: Copy>(alpha: &[T], n: usize) -> Vec<Vec<T>> {
    let mut out = vec![vec![]];
    for _ in 0..n {
        let mut next = vec![];
        for v in out.iter() {
            for a in alpha {
                let mut w = v.clone();
                w.push(*a);
                next.push(w);
            }
        }
        out = next;
    }
    out
}

fn base_samples(n: usize) -> Vec<LSample> {
    (0..n).map(|i| LSample { size: 1 + (i as u32 % 3), delta: 10 + i as u32, cts: 0, sync: true }).collect()
}

fn merge(a: &mut Local, b: Local) {
    a.evaluations += b.evaluations;
    a.transitions += b.transitions;
    a.validated += b.validated;
    a.nontrivial += b.nontrivial;
    for (k, v) in b.outcomes {
        *a.outcomes.entry(k).or_insert(0) += v;
    }
    a.violations.merge(b.violations);
    if a.samples.len() < 4 {
        a.samples.extend(b.samples);
    }
}

fn par<T: Sync + Send>(items: Vec<T>, l: &mut Local, f: impl Fn(&T, &mut Local) + Sync) {
    let r = items
        .par_iter()
        .fold(Local::default, |mut l, it| {
            f(it, &mut l);
            l
        })
        .reduce(Local::default, |mut a, b| {
            merge(&mut a, b);
            a
        });
    merge(l, r);
}

pub fn run(tier: Tier, seed: u64) -> i32 {
    let mut ev = Evidence::new("C03", tier, seed, "model_checking");
    let rep = Reporter::new("C03");
    let th = tier == Tier::Thorough;
    let nmax = if th { 9 } else { 7 };
    let mut l = Local::default();
    let mut fams = vec![];

    // (A) chunk structure x stsc run encoding x stco/co64 x sizes
    let mut count = 0u64;
    for n in 0..=nmax {
        let mut items = vec![];
        for comp in compositions(n) {
            for split in split_masks(&comp) {
                for co64 in [false, true] {
                    items.push((comp.clone(), split, co64));
                }
            }
        }
        let size_vecs = vectors(&[1u32, 0, 2], n);
        count += items.len() as u64 * (size_vecs.len() as u64 + 2);
        par(items, &mut l, |(comp, split, co64), l| {
            let mk = |sizes: &[u32], konst: bool| {
                let samples: Vec<LSample> = (0..n).map(|i| LSample { size: sizes[i], delta: 10 + i as u32, cts: 0, sync: true }).collect();
                let mut t = LTrack::simple(1, Codec::Avc, 1000, samples, comp.clone());
                t.stsc_split = *split;
                t.co64 = *co64;
                t.const_size = konst;
                LMovie::new(1000, vec![t])
            };
            if n <= 9 {
                for sv in size_vecs.iter() {
                    judge("C03", "A:chunks_x_sizes", &mk(sv, false), l);
                }
            } else {
                let sv: Vec<u32> = (0..n).map(|i| [2u32, 0, 1][i % 3]).collect();
                judge("C03", "A:chunks_x_sizes", &mk(&sv, false), l);
            }
            for c in [1u32, 3] {
                judge("C03", "A:chunks_x_const_size", &mk(&vec![c; n], true), l);
            }
        });
    }
    fams.push(json!({"family": "A:chunks_x_stsc_runs_x_offset_width_x_sizes", "n_max": nmax, "files": count}));

    // (B) deltas x run encodings; (C) composition offsets x run encodings x version; (D) sync subsets
    let nb = if th { 9 } else { 7 };
    let mut cb = 0u64;
    for n in 0..=nb {
        let dvs = vectors(&[1u32, 0, 3], n);
        cb += dvs.len() as u64;
        par(dvs, &mut l, |dv, l| {
            for split in split_masks(dv) {
                let mut samples = base_samples(n);
                for (s, d) in samples.iter_mut().zip(dv.iter()) {
                    s.delta = *d;
                }
                let mut t = LTrack::simple(1, Codec::Aac, 48000, samples, if n == 0 { vec![] } else { vec![n as u32] });
                t.stts_split = split;
                judge("C03", "B:deltas", &LMovie::new(600, vec![t]), l);
            }
        });
        let ovs = vectors(&[0i32, 5, -5], n);
        par(ovs, &mut l, |ov, l| {
            for split in split_masks(ov) {
                for ver in [0u8, 1] {
                    let mut samples = base_samples(n);
                    for (s, o) in samples.iter_mut().zip(ov.iter()) {
                        s.cts = *o;
                    }
                    let chunks = if n == 0 { vec![] } else if n >= 3 { vec![2, n as u32 - 2] } else { vec![n as u32] };
                    let mut t = LTrack::simple(1, Codec::Hevc, 90000, samples, chunks);
                    t.ctts = Some(ver);
                    t.ctts_split = split;
                    judge("C03", "C:composition_offsets", &LMovie::new(1000, vec![t]), l);
                }
            }
        });
        let subsets: Vec<u32> = (0..(1u32 << n)).collect();
        par(subsets, &mut l, |mask, l| {
            let mut samples = base_samples(n);
            for (i, s) in samples.iter_mut().enumerate() {
                s.sync = (mask >> i) & 1 == 1;
            }
            let chunks: Vec<u32> = (0..n).map(|_| 1).collect();
            let mut t = LTrack::simple(1, Codec::Vp9, 1000, samples, chunks);
            t.stss = true;
            judge("C03", "D:sync_subsets", &LMovie::new(1000, vec![t]), l);
        });
    }
    fams.push(json!({"family": "B/C/D:deltas, composition offsets (v0,v1), sync subsets with every run encoding", "n_max": nb, "delta_vectors": cb}));

    // (E) two tracks with every interleaving of their chunk sequences; one track with its chunks in every order
    let nsum = if th { 9 } else { 7 };
    let mut ce = 0u64;
    for n1 in 1..nsum {
        for n2 in 1..=(nsum - n1) {
            let total = n1 + n2;
            let items: Vec<u32> = (0..(1u32 << total)).filter(|m| m.count_ones() as usize == n1).collect();
            ce += items.len() as u64;
            par(items, &mut l, |mask, l| {
                // each sample its own chunk; placement = interleaving given by the mask
                let t1 = LTrack::simple(1, Codec::Avc, 1000, base_samples(n1), vec![1; n1]);
                let mut t2 = LTrack::simple(2, Codec::Aac, 48000, base_samples(n2), vec![1; n2]);
                t2.co64 = true;
                let mut m = LMovie::new(1000, vec![t1, t2]);
                let (mut a, mut b) = (0usize, 0usize);
                m.placement.clear();
                for i in 0..total {
                    if (mask >> i) & 1 == 1 {
                        m.placement.push((0, a));
                        a += 1;
                    } else {
                        m.placement.push((1, b));
                        b += 1;
                    }
                }
                judge("C03", "E:two_track_interleavings", &m, l);
                m.mdat_first = true;
                judge("C03", "E:two_track_interleavings_mdat_first", &m, l);
            });
        }
    }
    for n in 1..=(if th { 7 } else { 6 }) {
        let mut perms: Vec<Vec<usize>> = vec![];
        fn permute(k: usize, a: &mut Vec<usize>, out: &mut Vec<Vec<usize>>) {
            if k == a.len() {
                out.push(a.clone());
                return;
            }
            for i in k..a.len() {
                a.swap(k, i);
                permute(k + 1, a, out);
                a.swap(k, i);
            }
        }
        permute(0, &mut (0..n).collect(), &mut perms);
        ce += perms.len() as u64;
        par(perms, &mut l, |p, l| {
            let samples: Vec<LSample> = (0..2 * n).map(|i| LSample { size: 1 + (i as u32 % 2), delta: 7, cts: 0, sync: true }).collect();
            let t = LTrack::simple(1, Codec::Tx3g, 1000, samples, vec![2; n]);
            let mut m = LMovie::new(1000, vec![t]);
            m.placement = p.iter().map(|&c| (0usize, c)).collect();
            judge("C03", "E:chunk_order_permutations", &m, l);
        });
    }
    fams.push(json!({"family": "E:two-track interleavings (mdat after and before moov), chunk order permutations", "files": ce}));

    // (F) complete cross product of all families for small N
    let nf = if th { 4 } else { 3 };
    let mut cf = 0u64;
    for n in 0..=nf {
        let mut items = vec![];
        for comp in compositions(n) {
            for split in split_masks(&comp) {
                for sizes in vectors(&[1u32, 0, 2], n) {
                    for deltas in vectors(&[1u32, 0], n) {
                        items.push((comp.clone(), split, sizes.clone(), deltas));
                    }
                }
            }
        }
        par(items, &mut l, |(comp, split, sizes, deltas), l| {
            for co64 in [false, true] {
                for dsplit in split_masks(deltas) {
                    for ctts in [None, Some(0u8), Some(1u8)] {
                        let ovs = if ctts.is_some() { vectors(&[0i32, -5], n) } else { vec![vec![0; n]] };
                        for ov in ovs.iter() {
                            for osplit in if ctts.is_some() { split_masks(ov) } else { vec![0] } {
                                let syncs: Vec<Option<u32>> = std::iter::once(None).chain((0..(1u32 << n)).map(Some)).collect();
                                for sy in syncs.iter() {
                                    let samples: Vec<LSample> = (0..n).map(|i| LSample { size: sizes[i], delta: deltas[i], cts: ov[i], sync: sy.map(|m| (m >> i) & 1 == 1).unwrap_or(true) }).collect();
                                    let mut t = LTrack::simple(1, Codec::Avc, 1000, samples, comp.clone());
                                    t.stsc_split = *split;
                                    t.stts_split = dsplit;
                                    t.ctts = ctts;
                                    t.ctts_split = osplit;
                                    t.co64 = co64;
                                    t.stss = sy.is_some();
                                    judge("C03", "F:cross_product", &LMovie::new(1000, vec![t]), l);
                                }
                            }
                        }
                    }
                }
            }
        });
        cf += 1;
    }
    fams.push(json!({"family": "F:complete cross product of chunking, stsc runs, sizes, deltas+runs, offsets+runs+version, sync subsets, offset width", "n_max": nf, "levels": cf}));

    // (G) every codec kind as the sample entry, two tracks of different kinds
    for c1 in [Codec::Avc, Codec::Hevc, Codec::Vp9, Codec::Aac, Codec::Tx3g] {
        for c2 in [Codec::Avc, Codec::Hevc, Codec::Vp9, Codec::Aac, Codec::Tx3g] {
            let mut t1 = LTrack::simple(1, c1, 1000, base_samples(3), vec![2, 1]);
            t1.ctts = Some(0);
            t1.samples[1].cts = 9;
            let mut t2 = LTrack::simple(2, c2, 44100, base_samples(4), vec![1, 3]);
            t2.stss = true;
            t2.samples[2].sync = false;
            t2.edts = Some(1);
            t1.edts = Some(0);
            judge("C03", "G:codec_pairs", &LMovie::new(600, vec![t1, t2]), &mut l);
        }
    }
    fams.push(json!({"family": "G:5x5 sample-entry kinds", "files": 25}));

    // (I) the same tables with the children of stbl in other orders and with uninterpreted boxes among them
    let ni = if th { 4 } else { 3 };
    let mut ci = 0u64;
    for n in 1..=ni {
        let mut items = vec![];
        for comp in compositions(n) {
            for order in 1u8..=4 {
                for ctts in [None, Some(0u8), Some(1u8)] {
                    for sy in std::iter::once(None).chain((0..(1u32 << n)).map(Some)) {
                        items.push((comp.clone(), order, ctts, sy));
                    }
                }
            }
        }
        ci += items.len() as u64 * 2;
        par(items, &mut l, |(comp, order, ctts, sy), l| {
            for co64 in [false, true] {
                let samples: Vec<LSample> = (0..n).map(|i| LSample { size: 1 + i as u32, delta: 5 + i as u32, cts: if i % 2 == 1 { -3 } else { 4 }, sync: sy.map(|m| (m >> i) & 1 == 1).unwrap_or(true) }).collect();
                let mut t = LTrack::simple(1, Codec::Avc, 1000, samples, comp.clone());
                t.ctts = *ctts;
                t.stss = sy.is_some();
                t.co64 = co64;
                t.stbl_order = *order;
                judge("C03", "I:stbl_child_orders", &LMovie::new(1000, vec![t]), l);
            }
        });
    }
    fams.push(json!({"family": "I:children of stbl in 4 other orders (optional tables last after an uninterpreted box, reversed, optional first, uninterpreted boxes everywhere) x chunking x offsets version x sync subsets", "n_max": ni, "files": ci}));

    // (J) sizes whose running sums pass 2^32 inside a chunk: offsets only
    let nj = if th { 6 } else { 4 };
    let mut cj = 0u64;
    for n in 1..=nj {
        let mut items = vec![];
        for comp in compositions(n) {
            for sizes in vectors(&[0x9000_0000u32, 1, u32::MAX], n) {
                items.push((comp.clone(), sizes));
            }
        }
        cj += items.len() as u64 * 2;
        par(items, &mut l, |(comp, sizes), l| {
            for co64 in [false, true] {
                let samples: Vec<LSample> = (0..n).map(|i| LSample { size: sizes[i], delta: 1, cts: 0, sync: true }).collect();
                let mut t = LTrack::simple(1, Codec::Aac, 1000, samples, comp.clone());
                // 32-bit chunk offsets can only address chunks that start below 4 GiB: with stco keep everything in one chunk
                t.co64 = co64 || comp.len() > 1;
                judge_offsets("C03", "J:sizes_summing_past_4GiB", &LMovie::new(1000, vec![t]), l);
            }
        });
    }
    fams.push(json!({"family": "J:sample sizes in {0x90000000, 1, 0xffffffff}^N, every chunking: sample_count and sample_offset only (payload not materialised)", "n_max": nj, "files": cj}));

    // (K) forms of the media data box: after moov with a compact / 64-bit / open-ended (size 0) header, before moov
    let nk = if th { 5 } else { 4 };
    let mut ck = 0u64;
    for n in 1..=nk {
        let mut items = vec![];
        for comp in compositions(n) {
            for form in 0..5u8 {
                for co64 in [false, true] {
                    items.push((comp.clone(), form, co64));
                }
            }
        }
        ck += items.len() as u64;
        par(items, &mut l, |(comp, form, co64), l| {
            let samples: Vec<LSample> = (0..n).map(|i| LSample { size: 1 + (i as u32 % 3), delta: 4 + i as u32, cts: 0, sync: i % 2 == 0 }).collect();
            let mut t = LTrack::simple(1, Codec::Avc, 1000, samples.clone(), comp.clone());
            t.co64 = *co64;
            t.stss = true;
            let mut t2 = LTrack::simple(2, Codec::Aac, 48000, samples, comp.clone());
            t2.co64 = !*co64;
            let mut m = LMovie::new(1000, vec![t, t2]);
            match *form {
                1 => m.large_mdat = true,
                2 => m.mdat_open_ended = true,
                3 => m.mdat_first = true,
                4 => {
                    m.mdat_first = true;
                    m.large_mdat = true;
                }
                _ => {}
            }
            judge("C03", "K:mdat_forms", &m, l);
        });
    }
    fams.push(json!({"family": "K:media data box after moov (compact, 64-bit, open-ended size-0 header) or before it (compact, 64-bit) x chunking x offset width, two tracks", "n_max": nk, "files": ck}));

    // (L) long tables with periodic content: N in {33, 255, 256, 257, 1000, 65537}; chunk sizes, deltas, offsets, sync
    // flags and sizes periodic with periods 1..3 (one dimension varied at a time, then all together with co-prime
    // periods); a single chunk of N samples; N chunks of one sample
    {
        let lens: Vec<usize> = if th { vec![33, 255, 256, 257, 1000, 65537] } else { vec![33, 255, 256, 257, 1000] };
        let mut items: Vec<(usize, u8, Vec<u32>)> = vec![];
        for &n in lens.iter().chain([12000usize].iter()) {
            for dim in 0..6u8 {
                if n == 12000 && dim < 4 {
                    continue; // the 12000-sample tables vary the chunk map (more than 5461 runs) only
                }
                for period in 1..=3usize {
                    for code in 0..3usize.pow(period as u32) {
                        let pat: Vec<u32> = (0..period).map(|i| ((code / 3usize.pow(i as u32)) % 3) as u32).collect();
                        items.push((n, dim, pat));
                    }
                }
            }
        }
        let cl = items.len() as u64;
        par(items, &mut l, |(n, dim, pat), l| {
            let n = *n;
            let at = |i: usize| pat[i % pat.len()];
            let samples: Vec<LSample> = (0..n)
                .map(|i| LSample {
                    size: if *dim == 0 || *dim == 5 { [1, 0, 2][at(i) as usize] } else { 1 + (i as u32 % 2) },
                    delta: if *dim == 1 || *dim == 5 { [1, 3, 0][at(i + 1) as usize] } else { 10 },
                    cts: if *dim == 2 || *dim == 5 { [0, 5, -5][at(i + 2) as usize] } else { 0 },
                    sync: if *dim == 3 || *dim == 5 { at(i) != 1 } else { true },
                })
                .collect();
            // chunking: dim 4 (and 5) make the chunk sizes periodic over {1,2,3}; otherwise one chunk of N / N chunks of 1
            let mut chunks: Vec<u32> = vec![];
            if *dim == 4 || *dim == 5 {
                let mut left = n as u32;
                let mut i = 0usize;
                while left > 0 {
                    let c = (1 + at(i)).min(left);
                    chunks.push(c);
                    left -= c;
                    i += 1;
                }
            } else if pat[0] == 0 {
                chunks = vec![n as u32];
            } else {
                chunks = vec![1; n];
            }
            let mut t = LTrack::simple(1, Codec::Avc, 1000, samples, chunks);
            t.ctts = if *dim == 2 || *dim == 5 { Some((pat.len() % 2) as u8) } else { None };
            t.stss = *dim == 3 || *dim == 5;
            t.co64 = pat.len() == 2;
            judge("C03", "L:long_periodic_tables", &LMovie::new(1000, vec![t]), l);
        });
        fams.push(json!({"family": "L:long periodic tables (N = 33, 255, 256, 257, 1000 (+65537 thorough); sizes / deltas / offsets / sync / chunk sizes periodic with period 1..3, one dimension at a time and all together; one chunk of N and N chunks of 1)", "files": cl}));
    }

    // (M) regular tables with ONE irregularity: sync positions / deltas / chunk sizes periodic (period 2, 3, 4, 12) over
    // N = 24, 40 and 240 samples, with the entry at every position (every 7th for N = 240) moved off the grid
    {
        let mut items: Vec<(usize, u8, usize, usize)> = vec![];
        for n in [24usize, 40, 240] {
            for dim in 0..3u8 {
                for period in [2usize, 3, 4, 12] {
                    for j in (0..n).step_by(if n > 100 { 7 } else { 1 }) {
                        items.push((n, dim, period, j));
                    }
                }
            }
        }
        let cm = items.len() as u64;
        par(items, &mut l, |(n, dim, period, j), l| {
            let (n, period, j) = (*n, *period, *j);
            let mut samples: Vec<LSample> = (0..n).map(|i| LSample { size: 1 + (i as u32 % 3), delta: if *dim == 1 { if i % period == 0 { 7 } else { 3 } } else { 10 }, cts: 0, sync: if *dim == 0 { i % period == 0 } else { true } }).collect();
            let mut chunks: Vec<u32> = if *dim == 2 {
                let mut v = vec![];
                let mut left = n as u32;
                let mut i = 0;
                while left > 0 {
                    let c = (if i % period == 0 { 3 } else { 2 }).min(left);
                    v.push(c);
                    left -= c;
                    i += 1;
                }
                v
            } else {
                vec![n as u32]
            };
            // the irregularity
            match *dim {
                0 => {
                    // move one sync sample one position later (or add one where there was none)
                    if samples[j].sync && j + 1 < n {
                        samples[j].sync = false;
                        samples[j + 1].sync = true;
                    } else {
                        samples[j].sync = true;
                    }
                }
                1 => samples[j].delta += 1,
                _ => {
                    let k = j % chunks.len();
                    if chunks[k] > 1 && k + 1 < chunks.len() {
                        chunks[k] -= 1;
                        chunks[k + 1] += 1;
                    }
                }
            }
            let mut t = LTrack::simple(1, Codec::Hevc, 90000, samples, chunks);
            t.stss = *dim == 0;
            judge("C03", "M:regular_with_one_irregularity", &LMovie::new(1000, vec![t]), l);
        });
        fams.push(json!({"family": "M:periodic sync positions / deltas / chunk sizes (period 2, 3, 4, 12; N = 24, 40, 240) with one entry moved off the grid, at every position", "files": cm}));
    }
    // (N) two tracks whose chunks of 300 variable-size samples alternate in the file (chunks of one run are not contiguous)
    {
        let mk = |id: u32, codec: Codec| {
            let samples: Vec<LSample> = (0..900).map(|i| LSample { size: 1 + ((i as u32 * 7 + id) % 5), delta: 3, cts: 0, sync: true }).collect();
            LTrack::simple(id, codec, 1000, samples, vec![300, 300, 300])
        };
        for co64 in [false, true] {
            let mut a = mk(1, Codec::Avc);
            a.co64 = co64;
            let b = mk(2, Codec::Aac);
            judge("C03", "N:interleaved_long_chunks", &LMovie::new(1000, vec![a, b]), &mut l);
        }
        fams.push(json!({"family": "N:two tracks, three chunks of 300 variable-size samples each, chunks interleaved in the file", "files": 2}));
    }

    // (H) real files: the independent decoder (refmp4::parse) reads the canned files' tables, evaluates the lookup
    // semantics on them, and every sample is compared with what the library returns.  This binds the reference
    // model to bytes produced by other muxers (ffmpeg), not only to its own encoder.
    let mut real_samples = 0u64;
    for name in ["minimal.mp4", "extended_audio_object_type.mp4", "big_buck_bunny_metadata.m4v"] {
        let bytes = crate::e3::canned(name);
        l.evaluations += 1;
        let case = |extra: Value| json!({"engine": "canned", "file": name, "detail": extra});
        let tops = match crate::refmp4::parse::top_level(&bytes, 0) {
            Ok(t) => t,
            Err(e) => machinery_failure(&format!("reference parser rejects canned file {}: {}", name, e)),
        };
        let moov = tops.iter().find(|t| &t.cc == b"moov").unwrap();
        let tree = crate::refmp4::parse::tree(&bytes[moov.start as usize..(moov.start + moov.size) as usize], moov.start).unwrap_or_else(|e| machinery_failure(&format!("reference parser: {}: {}", name, e)));
        let mut r = open(&bytes).unwrap_or_else(|e| machinery_failure(&format!("canned file {} does not open: {}", name, e)));
        l.validated += 1;
        for trak in tree[0].kids_named(b"trak") {
            let id = crate::refmp4::parse::tkhd(&trak.kid(b"tkhd").unwrap().payload).unwrap().1;
            let tb = crate::refmp4::parse::tables(trak.path(&[b"mdia", b"minf", b"stbl"]).unwrap()).unwrap_or_else(|e| machinery_failure(&format!("reference tables of {}: {}", name, e)));
            let exp = crate::refmp4::parse::locate_all(&tb).unwrap_or_else(|e| machinery_failure(&format!("reference lookup of {}: {}", name, e)));
            if guard(|| r.sample_count(id).ok()) != Ok(Some(exp.len() as u32)) {
                l.violations.push(Violation::new("C03", "sample_count", case(json!({"track": id}))).exp(json!(exp.len())));
                continue;
            }
            for (k, e) in exp.iter().enumerate() {
                l.transitions += 2;
                real_samples += 1;
                let off = guard(|| r.sample_offset(id, k as u32 + 1).ok());
                let got = read_one(&mut r, id, k as u32 + 1);
                let want_bytes = &bytes[e.0 as usize..(e.0 + e.1 as u64) as usize];
                let ok = off == Ok(Some(e.0)) && matches!(&got, Got::Some(g) if g.bytes == want_bytes && g.start == e.2 && g.dur == e.3 && g.off == e.4 && g.sync == e.5);
                if !ok {
                    l.violations.push(Violation::new("C03", "canned_file_sample_differs_from_reference_lookup", case(json!({"track": id, "sample": k + 1}))).obs(json!({"offset": format!("{:?}", off), "got": got.to_json()})).exp(json!({"offset": e.0, "size": e.1, "start": e.2, "dur": e.3, "cts": e.4, "sync": e.5})));
                    break;
                }
            }
            let n = exp.len() as u32;
            for probe in [0u32, n + 1, u32::MAX] {
                if let Got::Some(_) = read_one(&mut r, id, probe) {
                    l.violations.push(Violation::new("C03", "id_outside_range_yields_sample", case(json!({"track": id, "sample": probe}))));
                }
            }
        }
        l.nontrivial += 1;
        l.outcome("ok:H:canned_file_vs_reference_decoder");
    }
    fams.push(json!({"family": "H:canned files (ffmpeg-produced): reference decoder's tables + lookup semantics vs the library, every sample", "files": 3, "samples_compared": real_samples}));

    ev.set("evaluations", json!(l.evaluations));
    ev.set("states", json!(l.evaluations));
    ev.set("transitions", json!(l.transitions));
    ev.set("traces_validated_against_impl", json!(l.validated));
    ev.set("distinct_nontrivial", json!(l.nontrivial));
    ev.set("rule", json!("one case = one consistent table set, reference-encoded from a logical movie (chunk composition, run encodings, widths, per-sample values, placement) and opened by the real reader; every id 0..N+2 and u32::MAX is looked up (offset + read) and compared with the expectation derived from the logical movie; families enumerate disjoint parameter spaces; non-trivial = >= 2 samples and all lookups agreed"));
    ev.set("families", Value::Array(fams));
    ev.set("exhaustive", json!(true));
    ev.set("outcome_classes", Value::Object(l.outcomes.iter().map(|(k, v)| (k.clone(), json!(v))).collect()));
    ev.set("bound", json!(format!("N <= {} per family (all compositions, all run splittings, all value vectors over 3-letter alphabets, all sync subsets, all interleavings for N1+N2 <= {}), complete cross product for N <= {}", nmax, nsum, nf)));
    let mut samples = l.samples.clone();
    if samples.is_empty() {
        samples.push(json!("(none)"));
    }
    ev.set("samples", Value::Array(samples));
    ev.assume("the reference encoder (refmp4::build, refmp4::movie) is hand-written from ISO/IEC 14496-12 and shares no code with the library; 'randomly for large N' in the quantifier is not covered (sampling is outside this technique)");
    let v = std::mem::take(&mut l.violations);
    v.drain_into(&rep);
    conclude(&ev, &rep)
}
