//! C11 — truncated files never yield wrong data: every cut position of every baseline layout.

use crate::common::*;
use crate::e3::{canned, muxed_baseline, ops_bound};
use crate::env::stream::{Ctl, SR};
use crate::mux::*;
use crate::worker::*;
use mp4::*;
use serde_json::{json, Value};

pub struct CutFile {
    pub name: String,
    pub bytes: Vec<u8>,
    pub init: Option<Vec<u8>>,
    /// per track id (sorted): samples of the complete file
    pub full: Vec<(u32, Vec<Got>)>,
    /// first cut position explored (cuts before it coincide with those of another file of the list)
    pub from: usize,
    /// Some(cuts): only these cut positions are explored (large files)
    pub only: Option<Vec<usize>>,
}

fn read_all<R: std::io::Read + std::io::Seek>(r: &mut Mp4Reader<R>, upto: Option<&[(u32, Vec<Got>)]>) -> Vec<(u32, Vec<Got>)> {
    let mut out = vec![];
    let ids: Vec<u32> = match upto {
        Some(f) => f.iter().map(|(i, _)| *i).collect(),
        None => sorted_track_ids(r),
    };
    for id in ids {
        let n = match upto {
            Some(f) => f.iter().find(|(i, _)| *i == id).map(|(_, v)| v.len() as u32).unwrap_or(0),
            None => guard(|| r.sample_count(id)).ok().and_then(|x| x.ok()).unwrap_or(0).min(100_000) + 1,
        };
        let mut v = vec![];
        for k in 1..=n {
            v.push(read_one(r, id, k));
        }
        out.push((id, v));
    }
    out
}

pub fn files(tier: Tier, seed: u64) -> Vec<CutFile> {
    let mut raw: Vec<(String, Vec<u8>, Option<Vec<u8>>)> = vec![];
    let mut from_of: std::collections::HashMap<String, usize> = Default::default();
    for (name, bytes, from) in crate::refmp4::kitchen::cut_last_box_variants() {
        from_of.insert(name.clone(), from);
        raw.push((name, bytes, None));
    }
    raw.push(("mux:avc+aac (ftyp,mdat,moov)".into(), muxed_baseline(seed, &[Kind::Avc, Kind::Aac]), None));
    {
        // long tables: 600 samples, one chunk each (sample duration = one second), varying sizes, rendering offsets and
        // sync flags, so that stts/ctts/stss/stsc/stsz/stco all have hundreds of entries and the chunk-offset table
        // is the last thing in the file; every cut position is explored
        let movie = MovieSpec::new(1000, vec![TrackSpec::new(Kind::Avc, 1000)]);
        let h: Vec<Op> = (0..600u32).map(|i| Op { track: 1, size: 1 + (i % 7), dur: 1000 + (i % 3), off: (i % 5) as i32 - 2, sync: i % 2 == 0 }).collect();
        match mux(seed, &movie, &h) {
            Ok(o) => raw.push(("mux:avc, 600 one-sample chunks (long tables, stco last)".into(), o.bytes, None)),
            Err(e) => machinery_failure(&format!("long-table baseline mux failed: {}", e)),
        }
    }
    raw.push(("canned:minimal.mp4 (ftyp,moov,free,mdat)".into(), canned("minimal.mp4"), None));
    let mut frag = canned("minimal_init.mp4");
    frag.extend(canned("minimal_fragment.m4s"));
    raw.push(("canned:init+fragment in one stream".into(), frag, None));
    raw.push(("canned:minimal_fragment.m4s against init".into(), canned("minimal_fragment.m4s"), Some(canned("minimal_init.mp4"))));
    raw.push(("canned:extended_audio_object_type.mp4 (ftyp,mdat,moov)".into(), canned("extended_audio_object_type.mp4"), None));
    for (name, bytes) in crate::refmp4::kitchen::cut_layouts(tier) {
        raw.push((name, bytes, None));
    }
    for (name, bytes, init) in crate::refmp4::kitchen::cut_fragmented_mixed() {
        raw.push((name, bytes, init));
    }
    let mut only_of: std::collections::HashMap<String, Vec<usize>> = Default::default();
    for (name, bytes, cuts) in [crate::refmp4::kitchen::cut_large_sample(), crate::refmp4::kitchen::cut_very_large_sample()] {
        only_of.insert(name.clone(), cuts);
        raw.push((name, bytes, None));
    }
    {
        let _ = tier;
        raw.push(("canned:big_buck_bunny_metadata.m4v (metadata, moov first)".into(), canned("big_buck_bunny_metadata.m4v"), None));
    }
    raw.into_iter()
        .map(|(name, bytes, init)| {
            let full = {
                let init_r = init.as_ref().map(|i| open(i).unwrap_or_else(|e| machinery_failure(&format!("{}: init does not open: {}", name, e))));
                let ctl = Ctl::new();
                let n = bytes.len() as u64;
                let r = guard(|| match &init_r {
                    None => Mp4Reader::read_header(SR::new(&bytes, &ctl), n),
                    Some(i) => i.read_fragment_header(SR::new(&bytes, &ctl), n),
                });
                match r {
                    Ok(Ok(mut r)) => read_all(&mut r, None),
                    o => machinery_failure(&format!("{}: complete file does not open: {:?}", name, o.map(|r| r.map(|_| ()).map_err(|e| e.to_string())))),
                }
            };
            let from = from_of.get(&name).copied().unwrap_or(0);
            let only = only_of.get(&name).cloned();
            CutFile { name, bytes, init, full, from, only }
        })
        .collect()
}

pub struct CutJob {
    pub files: Vec<CutFile>,
    pub units: Vec<(usize, usize)>,
}

impl CutJob {
    pub fn new(tier: Tier, seed: u64) -> CutJob {
        let files = files(tier, seed);
        let mut units = vec![];
        for (fi, f) in files.iter().enumerate() {
            match &f.only {
                Some(cuts) => units.extend(cuts.iter().map(|c| (fi, *c))),
                None => {
                    for c in f.from..f.bytes.len() {
                        units.push((fi, c));
                    }
                }
            }
        }
        CutJob { files, units }
    }
}

impl Job for CutJob {
    fn units(&self) -> u64 {
        self.units.len() as u64
    }
    fn run_unit(&self, unit: u64, start_sub: u64, ctx: &mut WorkerCtx) {
        if start_sub > 0 {
            return;
        }
        let (fi, cut) = self.units[unit as usize];
        let f = &self.files[fi];
        let data = &f.bytes[..cut];
        let case = || json!({"engine": "cut", "file": f.name, "cut": cut, "full_len": f.bytes.len()});
        let init_r = f.init.as_ref().map(|i| open(i).unwrap());
        ctx.begin_case(unit, 0);
        let ctl = Ctl::new();
        ctl.budget_ops.set(ops_bound(f.bytes.len() as u64));
        let n = cut as u64;
        let r = guard(|| match &init_r {
            None => Mp4Reader::read_header(SR::new(data, &ctl), n),
            Some(i) => i.read_fragment_header(SR::new(data, &ctl), n),
        });
        ctx.count("evaluations", 1);
        ctx.count("transitions", ctl.ops.get() + 1);
        match r {
            Err(p) => {
                ctx.count("outcome:open_panicked", 1);
                ctx.violation(Violation::new("C11", "panic_in_open", case()).tag("panic").obs(json!(short_loc(&p))));
            }
            Ok(Err(e)) => {
                if ctl.budget_hit.get() {
                    ctx.violation(Violation::new("C11", "open_did_not_terminate_within_budget", case()));
                }
                let es = format!("{:?}", e);
                ctx.count(&format!("outcome:open_err:{}", es.split('(').next().unwrap_or("?")), 1);
            }
            Ok(Ok(mut r)) => {
                ctx.count("outcome:opened", 1);
                ctx.count("nontrivial:opened_prefix", 1);
                ctl.budget_ops.set(u64::MAX);
                let got = read_all(&mut r, Some(&f.full));
                let mut same = 0u64;
                let mut absent = 0u64;
                for ((id, g), (_, full)) in got.iter().zip(f.full.iter()) {
                    for (k, (a, b)) in g.iter().zip(full.iter()).enumerate() {
                        ctx.count("transitions", 1);
                        match a {
                            Got::Some(s) => {
                                if Got::Some(s.clone()) != *b {
                                    ctx.violation(
                                        Violation::new("C11", "sample_differs_from_complete_file", case())
                                            .obs(json!({"track": id, "sample": k + 1, "got": a.to_json()}))
                                            .exp(b.to_json()),
                                    );
                                } else {
                                    same += 1;
                                }
                            }
                            Got::Panic(p) => ctx.violation(Violation::new("C11", "panic_in_read_sample", case()).obs(json!({"track": id, "sample": k + 1, "panic": p}))),
                            _ => absent += 1,
                        }
                    }
                }
                ctx.count("samples_identical", same);
                ctx.count("samples_absent_or_error", absent);
                if unit % 499 == 1 {
                    ctx.sample(json!({"file": f.name, "cut": cut, "opened": true, "samples_identical": same, "samples_absent_or_error": absent}));
                }
            }
        }
        ctx.end_case();
    }
}

pub fn run(tier: Tier, seed: u64) -> i32 {
    let mut ev = Evidence::new("C11", tier, seed, "fault_enumeration");
    let rep = Reporter::new("C11");
    let job = CutJob::new(tier, seed);
    let exe = self_exe("release");
    let args: Vec<String> = vec!["cut".into(), "C11".into(), "--tier".into(), tier.name().into(), "--seed".into(), seed.to_string()];
    let res = run_sharded(&exe, &args, 16, std::time::Duration::from_secs(if tier == Tier::Quick { 45 } else { 900 }), "C11");
    for (_, (n, vs)) in res.classes {
        let k = vs.len() as u64;
        for (i, v) in vs.into_iter().enumerate() {
            if i == 0 {
                rep.report_n(v, n.saturating_sub(k - 1).max(1));
            } else {
                rep.report(v);
            }
        }
    }
    for (kind, unit, _) in res.deaths.iter() {
        let (fi, cut) = job.units[*unit as usize];
        rep.report(Violation::new("C11", if kind == "timeout" { "hang" } else { "process_died" }, json!({"engine": "cut", "file": job.files[fi].name, "cut": cut})).tag(kind).obs(json!(kind)));
    }
    let g = |k: &str| res.counters.get(k).copied().unwrap_or(0);
    ev.set("evaluations", json!(g("evaluations")));
    ev.set("distinct_nontrivial", json!(g("nontrivial:opened_prefix")));
    ev.set("transitions", json!(g("transitions")));
    ev.set("rule", json!("one case = one (file, cut position) pair, every cut 0..len of every file (for the file with a 1.5 MiB sample: the header region and the cuts within 3 bytes of every sample edge, every power of two and the 64 KiB / 1 MiB marks inside the large sample; for the last-box variants of the movie-header-last file: every cut from the start of moov, the part before it being identical in all variants), each opened with size = cut; distinct by construction; non-trivial = the prefix still opens, so samples are actually compared with the complete file"));
    let (variants, plain): (Vec<&CutFile>, Vec<&CutFile>) = job.files.iter().partition(|f| f.from > 0);
    ev.set("files", json!(plain.iter().map(|f| json!({"name": f.name, "len": f.bytes.len(), "samples": f.full.iter().map(|(_, v)| v.len()).sum::<usize>()})).collect::<Vec<_>>()));
    ev.set("last_box_variants", json!({"files": variants.len(), "what": "two-track movie-header-last file (ctts, stss, elst, co64, 3-run and 2-run stsc, iTunes metadata); one variant per box of moov, with that box moved to the very end of the file", "cuts_each": variants.first().map(|f| f.bytes.len() - f.from)}));
    ev.set("outcome_classes", Value::Object(res.counters.iter().map(|(k, v)| (k.clone(), json!(v))).collect()));
    ev.set("exhaustive", json!(!res.capped));
    ev.set("caps_hit", json!(if res.capped { vec!["wall cap"] } else { vec![] }));
    let mut samples = res.samples;
    if samples.is_empty() {
        samples.push(json!({"file": job.files[0].name, "cut": 0}));
    }
    ev.set("samples", Value::Array(samples));
    ev.assume("Ok(None) and Err are both accepted for a sample of a truncated file; only Some(different) is wrong data");
    conclude(&ev, &rep)
}
