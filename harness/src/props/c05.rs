//! C05 — box wire formats conform to the ISO/IEC 14496 layouts (reference encoder/decoder as oracle).

use crate::boxgen::*;
use crate::common::*;
use crate::hist::Local;
use crate::props::c04::merge;
use crate::refmp4::build as rb;
use crate::refmp4::tree::{serialize, Node, W};
use mp4::*;
use rayon::prelude::*;
use serde_json::{json, Value};
use std::result::Result;
use std::io::Cursor;

fn judge(c: &dyn BoxCase, l: &mut Local) {
    l.evaluations += 1;
    let t = c.type_name();
    let case = || json!({"engine": "box", "box": c.describe()});
    let before = l.violations.len();
    let mk = |clause: &str| Violation::new("C05", clause, case()).tag(t);
    let reference = c.ref_bytes(false);
    // (a) library encoding = reference encoding, byte for byte (reserved positions masked)
    if !c.decode_only() {
        l.transitions += 1;
        match c.lib_encode() {
            Ok((_, bytes)) => {
                let mask = c.mask();
                let same_len = bytes.len() == reference.len();
                let mut first_diff = None;
                let mut reserved_diff = false;
                if same_len {
                    for i in 0..bytes.len() {
                        let m = mask.as_ref().and_then(|m| m.get(i)).copied().unwrap_or(0xff);
                        if (bytes[i] ^ reference[i]) & m != 0 {
                            first_diff = Some(i);
                            break;
                        }
                        if bytes[i] != reference[i] {
                            reserved_diff = true;
                        }
                    }
                }
                if !same_len || first_diff.is_some() {
                    l.violations.push(mk("encoding_differs_from_reference_layout").obs(json!({"library_hex": hex(&bytes[..bytes.len().min(400)]), "first_difference_at": first_diff, "library_len": bytes.len()})).exp(json!({"reference_hex": hex(&reference[..reference.len().min(400)]), "reference_len": reference.len()})));
                } else if reserved_diff {
                    l.outcome("note:reserved_bits_differ_from_mandated_default");
                }
            }
            Err(e) => l.violations.push(mk("encode_failed_for_representable_value").obs(json!(e))),
        }
    }
    // (b) reference bytes decode to the same field values; (c) so does the 64-bit header form
    for large in [false, true] {
        let b = if large { c.ref_bytes(true) } else { reference.clone() };
        l.transitions += 1;
        match c.lib_decode_eq(&b) {
            Ok((true, pos, _)) if pos == b.len() as u64 => {}
            Ok((eq, pos, shown)) => {
                l.violations.push(
                    mk(if large { "decode_of_64bit_header_form_differs" } else { "decode_of_reference_bytes_differs" })
                        .obs(json!({"equal": eq, "position": pos, "len": b.len(), "decoded": if shown.len() > 1200 { shown[..1200].to_string() } else { shown }, "input_hex": hex(&b[..b.len().min(400)])})),
                );
            }
            Err(e) => l.violations.push(mk(if large { "decode_of_64bit_header_form_failed" } else { "decode_of_reference_bytes_failed" }).obs(json!({"error": e, "input_hex": hex(&b[..b.len().min(400)])}))),
        }
    }
    // (b') the reference bytes decode to the same value when the box does not start at stream position 0
    {
        l.transitions += 1;
        let lead = [0u8, 0, 0, 8, b'f', b'r', b'e', b'e', 1, 2, 3];
        match c.lib_decode_eq_at(&lead, &reference) {
            Ok((true, pos, _)) if pos == reference.len() as u64 => {}
            Ok((eq, pos, _)) => l.violations.push(mk("decode_behind_leading_bytes_differs").obs(json!({"equal": eq, "position": pos, "len": reference.len()}))),
            Err(e) => l.violations.push(mk("decode_behind_leading_bytes_failed").obs(json!({"error": e}))),
        }
    }
    // (d) so does the box with any one of its descendants in the 64-bit header form, followed by another box
    for (path, mut b) in c.ref_bytes_descendant_large() {
        l.transitions += 1;
        let own = b.len() as u64;
        b.extend_from_slice(&[0, 0, 0, 8, b'f', b'r', b'e', b'e']);
        match c.lib_decode_eq(&b) {
            Ok((true, pos, _)) if pos == own => l.outcome("ok:descendant_with_64bit_header"),
            Ok((eq, pos, shown)) => {
                l.violations.push(mk("decode_with_descendant_in_64bit_header_form_differs").obs(json!({"descendant": path, "equal": eq, "position": pos, "len": own, "decoded": if shown.len() > 1200 { shown[..1200].to_string() } else { shown }, "input_hex": hex(&b[..b.len().min(400)])})));
            }
            Err(e) => l.violations.push(mk("decode_with_descendant_in_64bit_header_form_failed").obs(json!({"descendant": path, "error": e, "input_hex": hex(&b[..b.len().min(400)])}))),
        }
    }
    // (e) an uninterpreted child inserted anywhere in the box decodes the same whether that child uses the compact or
    // the 64-bit size header (same value, same distance from the end), or is refused in both forms
    for (place, a, b) in c.ref_bytes_inserted_child() {
        l.transitions += 2;
        match c.lib_decode_both(&a, &b) {
            Ok(Some((true, la, lb))) if la == lb => l.outcome("ok:inserted_child_header_forms_agree"),
            Ok(None) => l.outcome("ok:inserted_child_refused_in_both_forms"),
            Ok(Some((eq, la, lb))) => l.violations.push(mk("inserted_child_decodes_differently_with_64bit_header").obs(json!({"where": place, "values_equal": eq, "bytes_left_compact": la, "bytes_left_64bit": lb, "input_hex_64bit": hex(&b[..b.len().min(400)])}))),
            Err(e) => l.violations.push(mk("inserted_child_decodes_differently_with_64bit_header").obs(json!({"where": place, "error": e, "input_hex_64bit": hex(&b[..b.len().min(400)])}))),
        }
    }
    l.validated += 1;
    if l.violations.len() == before {
        l.outcome(&format!("ok:{}", t));
        l.nontrivial += 1;
    } else {
        l.outcome(&format!("VIOLATION:{}", t));
    }
}

/// Reference decoder of the first fields of AudioSpecificConfig (14496-3 1.6.2.1).
fn ref_asc(bytes: &[u8]) -> (u8, u8, u8) {
    let mut pos = 0usize;
    let mut get = |n: usize| -> u32 {
        let mut v = 0u32;
        for _ in 0..n {
            let bit = (bytes[pos / 8] >> (7 - pos % 8)) & 1;
            v = (v << 1) | bit as u32;
            pos += 1;
        }
        v
    };
    let mut aot = get(5);
    if aot == 31 {
        aot = 32 + get(6);
    }
    let fi = get(4);
    if fi == 15 {
        get(24);
    }
    let ch = get(4);
    (aot as u8, fi as u8, ch as u8)
}

fn esds_with_asc(asc: &[u8], len_bytes: usize) -> Vec<u8> {
    let dsi = rb::desc(0x05, asc, len_bytes);
    let dcd_body = W::new().u8(0x40).u8((5 << 2) | 1).u24(0).u32(1).u32(2).bytes(&dsi).done();
    let dcd = rb::desc(0x04, &dcd_body, len_bytes);
    let sl = rb::desc(0x06, &[2], len_bytes);
    let es_body = W::new().u16(1).u8(0).bytes(&dcd).bytes(&sl).done();
    let es = rb::desc(0x03, &es_body, len_bytes);
    let n = Node::leaf(b"esds", W::new().full(0, 0).bytes(&es).done());
    serialize(&[n]).0
}

fn decode_esds(bytes: &[u8]) -> Result<(u8, u8, u8), String> {
    let mut cur = Cursor::new(bytes.to_vec());
    match guard(|| {
        let h = BoxHeader::read(&mut cur)?;
        mp4::verif_hooks::EsdsBox::read_box(&mut cur, h.size)
    }) {
        Ok(Ok(e)) => {
            let d = e.es_desc.dec_config.dec_specific;
            Ok((d.profile, d.freq_index, d.chan_conf))
        }
        Ok(Err(e)) => Err(format!("Err({})", e)),
        Err(p) => Err(format!("PANIC {}", short_loc(&p))),
    }
}

pub fn run(tier: Tier, seed: u64) -> i32 {
    let mut ev = Evidence::new("C05", tier, seed, "model_checking");
    let rep = Reporter::new("C05");
    let cases = all_cases(tier);
    let mut per_type: std::collections::BTreeMap<&'static str, u64> = Default::default();
    for c in cases.iter() {
        *per_type.entry(c.type_name()).or_insert(0) += 1;
    }
    // library values need not be Send/Sync: every shard regenerates the (deterministic) case list and judges its own slice
    const SHARDS: usize = 16;
    let mut l = (0..SHARDS)
        .into_par_iter()
        .map(|shard| {
            let mut l = Local::default();
            for (i, c) in all_cases(tier).iter().enumerate() {
                if i % SHARDS == shard {
                    judge(c.as_ref(), &mut l);
                }
            }
            l
        })
        .reduce(Local::default, |mut a, b| {
            merge(&mut a, b);
            a
        });

    // (c') descriptor length prefixes padded to 2, 3, 4 bytes decode like the compact form
    for aot in [2u8, 5, 34] {
        for fi in [3u8, 4] {
            for ch in [1u8, 2, 7] {
                let asc = rb::audio_specific_config(aot, fi, 0, ch);
                let compact = decode_esds(&esds_with_asc(&asc, 1));
                for lb in 2..=4usize {
                    l.evaluations += 1;
                    let padded = decode_esds(&esds_with_asc(&asc, lb));
                    if padded != compact || compact != Ok((aot, fi, ch)) {
                        l.violations.push(Violation::new("C05", "padded_descriptor_length_decodes_differently", json!({"engine": "esds", "aot": aot, "freq_index": fi, "chan": ch, "len_bytes": lb})).obs(json!(format!("{:?}", padded))).exp(json!([aot, fi, ch])));
                    } else {
                        l.nontrivial += 1;
                    }
                }
            }
        }
    }

    // (c'') the typed AAC configuration of the API: every object type x frequency index x channel layout is written by
    // Mp4aBox::new as the AudioSpecificConfig the standard assigns to it (14496-3 Tables 1.17-1.19: mono..5.1 = 1..6,
    // 7.1 = 7), and the typed accessors map the same codes back
    {
        let chans = [(ChannelConfig::Mono, 1u8), (ChannelConfig::Stereo, 2), (ChannelConfig::Three, 3), (ChannelConfig::Four, 4), (ChannelConfig::Five, 5), (ChannelConfig::FiveOne, 6), (ChannelConfig::SevenOne, 7)];
        for a in (0..=255u8).filter(|v| AudioObjectType::try_from(*v).is_ok()) {
            for f in 0..=12u8 {
                for (cc, code) in chans.iter() {
                    l.evaluations += 1;
                    l.transitions += 2;
                    let case = || json!({"engine": "api_aac", "object_type": a, "freq_index": f, "channel_layout": format!("{:?}", cc), "standard_code": code});
                    let cfg = AacConfig { bitrate: 64000, profile: AudioObjectType::try_from(a).unwrap(), freq_index: SampleFreqIndex::try_from(f).unwrap(), chan_conf: *cc };
                    let mut bytes = vec![];
                    let wrote = guard(|| Mp4aBox::new(&cfg).write_box(&mut bytes));
                    if !matches!(wrote, Ok(Ok(_))) {
                        l.violations.push(Violation::new("C05", "api_aac_config_not_encodable", case()).obs(json!(format!("{:?}", wrote.map(|r| r.map_err(|e| e.to_string()))))));
                        continue;
                    }
                    // independent walk: mp4a (8 + 28) -> esds (8 + 4) -> tag 3 (len, 3 bytes) -> tag 4 (len, 13 bytes) -> tag 5 (len) -> ASC
                    let asc = (|| {
                        let mut p = 8 + 28 + 8 + 4;
                        for (tag, skip) in [(3u8, 3usize), (4, 13), (5, 0)] {
                            if *bytes.get(p)? != tag {
                                return None;
                            }
                            p += 1;
                            while *bytes.get(p)? & 0x80 != 0 {
                                p += 1;
                            }
                            p += 1 + skip;
                        }
                        bytes.get(p..).map(|s| s.to_vec())
                    })();
                    let got = asc.as_ref().filter(|s| s.len() >= 2).map(|s| {
                        let mut padded = s.clone();
                        padded.extend_from_slice(&[0; 6]);
                        ref_asc(&padded)
                    });
                    if got != Some((a, f, *code)) {
                        l.violations.push(Violation::new("C05", "api_aac_config_written_with_other_codes", case()).obs(json!({"asc_decoded_by_reference": format!("{:?}", got), "box_hex": hex(&bytes)})).exp(json!([a, f, code])));
                        continue;
                    }
                    let back = guard(|| ChannelConfig::try_from(*code).ok());
                    if back != Ok(Some(*cc)) || (*cc as u8) != *code {
                        l.violations.push(Violation::new("C05", "api_channel_layout_code_mapping", case()).obs(json!(format!("{:?}", back))));
                        continue;
                    }
                    l.nontrivial += 1;
                    l.outcome("api_aac:agrees");
                }
            }
        }
    }

    // (d) codec parameters the API exposes = what the bitstream encodes, for every value of the packed bytes
    let third: Vec<u8> = (0..=255u8).collect();
    let asc_res = (0..65536usize)
        .into_par_iter()
        .fold(Local::default, |mut l, ab| {
            let (a, b) = ((ab >> 8) as u8, ab as u8);
            // bytes 4 and 5 only matter after an explicit 24-bit frequency: vary them then
            let explicit_freq = ref_asc(&[a, b, 0, 0, 0, 0, 0]).1 == 15;
            let tails: &[(u8, u8)] = if explicit_freq { &[(0xc5, 0x9a), (0x00, 0x00), (0x3a, 0x65), (0xff, 0xff), (0x01, 0x00), (0x08, 0xe0), (0xf0, 0x1f), (0x10, 0x20)] } else { &[(0xc5, 0x9a)] };
            for &c3 in third.iter() {
              for &(e5, f6) in tails.iter() {
                let asc = [a, b, c3, 0x37, e5, f6, 0x00];
                let want = ref_asc(&asc);
                let got = decode_esds(&esds_with_asc(&asc, 1));
                l.evaluations += 1;
                l.transitions += 1;
                if got == Ok(want) {
                    l.nontrivial += 1;
                    l.outcome("asc:agrees");
                } else {
                    l.outcome("asc:DIFFERS");
                    let mut v = Violation::new("C05", "audio_specific_config_parameters", json!({"engine": "asc", "asc_hex": hex(&asc)})).obs(json!(format!("{:?}", got))).exp(json!({"object_type": want.0, "freq_index": want.1, "chan_conf": want.2}));
                    if want.1 == 15 && want.0 >= 32 {
                        v = v.tag("explicit_sampling_frequency_with_escaped_object_type");
                    } else if want.1 == 15 {
                        v = v.tag("explicit_sampling_frequency_index_15");
                    } else if want.0 >= 32 {
                        v = v.tag("escaped_object_type");
                    } else {
                        v = v.tag("compact_form");
                    }
                    l.violations.push(v);
                }
              }
            }
            l
        })
        .reduce(Local::default, |mut a, b| {
            merge(&mut a, b);
            a
        });
    merge(&mut l, asc_res);

    // (e) 32- vs 64-bit size headers written by the library: the reader's convention must be inverted exactly
    for size in [8u64, 9, u32::MAX as u64 - 1, u32::MAX as u64, u32::MAX as u64 + 1, (1u64 << 32) + 100, 1u64 << 40] {
        l.evaluations += 1;
        let mut out = vec![];
        let w = guard(|| BoxHeader::new(BoxType::MdatBox, size).write(&mut out));
        let back = guard(|| BoxHeader::read(&mut Cursor::new(out.clone())).map(|h| h.size));
        // independent reading of the bytes: total size of the box the header announces
        let total = if out.len() >= 8 && out[..4] == [0, 0, 0, 1] && out.len() >= 16 { u64::from_be_bytes([out[8], out[9], out[10], out[11], out[12], out[13], out[14], out[15]]) } else if out.len() >= 8 { u32::from_be_bytes([out[0], out[1], out[2], out[3]]) as u64 } else { 0 };
        // a box whose 8-byte-header size is `size` occupies size + (header length - 8) bytes
        let want_total = size + (out.len() as u64).saturating_sub(8);
        let ok = matches!(w, Ok(Ok(n)) if n == out.len() as u64) && matches!(back, Ok(Ok(s)) if s == size) && total == want_total && &out[4..8] == b"mdat";
        if ok {
            l.nontrivial += 1;
        } else {
            l.violations.push(Violation::new("C05", "box_header_size_form", json!({"engine": "header", "size": size})).tag(if size > u32::MAX as u64 { "size_over_4GiB" } else { "compact" }).obs(json!({"written_hex": hex(&out), "announced_total": total, "read_back": format!("{:?}", back.map(|r| r.map_err(|e| e.to_string())))})).exp(json!({"announced_total": want_total, "read_back": size})));
        }
    }

    ev.set("evaluations", json!(l.evaluations));
    ev.set("states", json!(l.evaluations));
    ev.set("transitions", json!(l.transitions));
    ev.set("traces_validated_against_impl", json!(l.validated));
    ev.set("distinct_nontrivial", json!(l.nontrivial));
    ev.set("rule", json!("one case = one box value (same shape x value space as C04) whose library encoding is compared byte for byte (reserved positions masked) with the reference encoder's and whose reference encoding (32- and 64-bit header) is decoded by the library and compared field for field; plus esds with 1-4 byte length prefixes, every value of the first two AudioSpecificConfig bytes x third-byte alphabet decoded by the library vs a reference bit reader, and the box header size forms around 2^32; non-trivial = all clauses held"));
    ev.set("cases_per_box_type", json!(per_type));
    ev.set("exhaustive", json!(true));
    ev.set("outcome_classes", Value::Object(l.outcomes.iter().map(|(k, v)| (k.clone(), json!(v))).collect()));
    ev.set("samples", json!(cases.iter().step_by((cases.len() / 3).max(1)).take(3).map(|c| c.describe()).collect::<Vec<_>>()));
    ev.assume("the reference encoder is written from ISO/IEC 14496-12/-14/-15/-1/-3, the VP codec binding and 3GPP TS 26.245 (REFSPEC.md); a difference confined to reserved bits is a note, not a violation");
    let v = std::mem::take(&mut l.violations);
    v.drain_into(&rep);
    conclude(&ev, &rep)
}
