//! C15 — reads are history-independent; muxing and parsing are deterministic.
//! Reader: explicit-state BFS over the whole reachable state graph of an opened reader (state =
//! canonical rendering of every field + stream position), every call of the alphabet applied in
//! every state and compared with a fresh reader asked once.

use crate::common::*;
use crate::e3::{canned, muxed_baseline};
use crate::env::stream::{Ctl, SR};
use crate::hist::{explore, Local};
use crate::mux::*;
use mp4::*;
use rayon::prelude::*;
use serde_json::{json, Value};
use std::collections::{HashMap, VecDeque};

#[derive(Clone, Copy, Debug, PartialEq, Eq)]
enum Call {
    Read(u32, u32),
    Offset(u32, u32),
    Count(u32),
    Accessors,
}

impl Call {
    fn name(&self) -> String {
        match self {
            Call::Read(t, k) => format!("read_sample({},{})", t, k),
            Call::Offset(t, k) => format!("sample_offset({},{})", t, k),
            Call::Count(t) => format!("sample_count({})", t),
            Call::Accessors => "accessors".into(),
        }
    }
}

fn apply(r: &mut Mp4Reader<SR>, c: Call) -> String {
    let res = guard(|| match c {
        Call::Read(t, k) => match r.read_sample(t, k) {
            Ok(Some(s)) => format!("Some(start={} dur={} off={} sync={} len={} fnv={:016x})", s.start_time, s.duration, s.rendering_offset, s.is_sync, s.bytes.len(), fnv(&s.bytes)),
            Ok(None) => "None".into(),
            Err(e) => format!("Err({})", e),
        },
        Call::Offset(t, k) => format!("{:?}", r.sample_offset(t, k).map_err(|e| e.to_string())),
        Call::Count(t) => format!("{:?}", r.sample_count(t).map_err(|e| e.to_string())),
        Call::Accessors => {
            let m = r.metadata();
            let meta = (m.title().map(|c| c.into_owned()), m.year(), m.poster().map(|p| fnv(p)), m.summary().map(|c| c.into_owned()));
            let mut ids: Vec<u32> = r.tracks().keys().copied().collect();
            ids.sort();
            let tr: Vec<String> = ids
                .iter()
                .map(|i| {
                    let t = &r.tracks()[i];
                    format!("{}:{:?}:{:?}:{}x{}:{}:{}:{:?}:{}:{}", t.track_id(), t.track_type().ok(), t.media_type().ok(), t.width(), t.height(), t.language(), t.timescale(), t.duration(), t.bitrate(), t.sample_count())
                })
                .collect();
            format!("{} {:?} {} {:?} {:?} {} {} {:?} {:?}", r.size(), r.major_brand(), r.minor_version(), r.compatible_brands(), r.duration(), r.timescale(), r.is_fragmented(), meta, tr)
        }
    });
    match res {
        Ok(s) => s,
        Err(p) => format!("PANIC {}", short_loc(&p)),
    }
}

/// Canonical rendering of *every* field of the reader (derive(Debug) prints them all).  Pretty form,
/// lines sorted: independent of HashMap iteration order.  Plus the harness' own stream position.
fn fingerprint(r: &Mp4Reader<SR>) -> u64 {
    let s = format!("{:#?}", r);
    let mut lines: Vec<&str> = s.lines().collect();
    lines.sort();
    let mut h: u64 = 0xcbf29ce484222325;
    for l in lines {
        h ^= fnv(l.as_bytes());
        h = h.wrapping_mul(0x100000001b3);
    }
    h
}

fn alphabet(bytes: &[u8], declared: u64) -> Vec<Call> {
    let ctl0 = Ctl::new();
    let r = Mp4Reader::read_header(SR::new(bytes, &ctl0), declared).unwrap_or_else(|e| machinery_failure(&format!("C15 file does not open: {}", e)));
    let ids = sorted_track_ids(&r);
    let maxid = ids.last().copied().unwrap_or(0);
    let mut tids = vec![0u32];
    tids.extend(ids.iter());
    tids.push(maxid + 1);
    let mut v = vec![Call::Accessors];
    for &t in tids.iter() {
        v.push(Call::Count(t));
        let n = match r.sample_count(t).unwrap_or(1) {
            c if c <= 32 => c, // short tracks: every sample id
            _ => 4,
        };
        let mut ks: Vec<u32> = (0..=n + 1).collect();
        ks.push(u32::MAX);
        for k in ks {
            v.push(Call::Read(t, k));
            v.push(Call::Offset(t, k));
        }
    }
    v
}

fn fresh<'a>(bytes: &'a [u8], declared: u64, ctl: &'a Ctl) -> Mp4Reader<SR<'a>> {
    Mp4Reader::read_header(SR::new(bytes, ctl), declared).unwrap()
}

fn reader_graph(name: &str, bytes: &[u8], declared: u64, depth_sweep: usize, l: &mut Local, states_total: &mut u64, trans_total: &mut u64) {
    if l.outcomes.contains_key("reader:state_space_exceeds_cap_after_violation") {
        // a verdict exists already and every further graph would run into the same cap: skip (recorded in the evidence)
        l.outcome("reader:graph_skipped_after_verdict");
        return;
    }
    let alpha = alphabet(bytes, declared);
    // baseline table: each call once on a fresh reader
    let table: Vec<String> = alpha
        .iter()
        .map(|c| {
            let ctl = Ctl::new();
            let mut r = fresh(bytes, declared, &ctl);
            apply(&mut r, *c)
        })
        .collect();
    let run_path = |path: &[usize]| -> (Vec<String>, u64) {
        let ctl = Ctl::new();
        let mut r = fresh(bytes, declared, &ctl);
        let mut out = vec![];
        for &i in path {
            out.push(apply(&mut r, alpha[i]));
        }
        (out, fingerprint(&r))
    };
    // self-test: the same path twice gives identical observations and fingerprints (determinism of the harness itself)
    {
        let p: Vec<usize> = (0..alpha.len().min(6)).collect();
        let (o1, f1) = run_path(&p);
        let (o2, f2) = run_path(&p);
        if o1 != o2 {
            // two fresh readers of the same bytes answer the same call sequence differently: that is the property
            let at = o1.iter().zip(o2.iter()).position(|(a, b)| a != b).unwrap_or(0);
            l.outcome("reader:fresh_readers_disagree");
            l.violations.push(
                Violation::new("C15", "fresh_readers_answer_the_same_calls_differently", json!({"engine": "reader_selftest", "file": name, "path": p.iter().take(at + 1).map(|&j| alpha[j].name()).collect::<Vec<_>>()}))
                    .obs(json!(o2[at]))
                    .exp(json!(o1[at])),
            );
            return;
        }
        if f1 != f2 {
            machinery_failure("C15: replaying one path twice gave equal observations but different fingerprints (fingerprint not canonical)");
        }
    }
    // BFS with de-duplication over fingerprints
    let mut seen: HashMap<u64, Vec<usize>> = HashMap::new();
    let mut q: VecDeque<Vec<usize>> = VecDeque::new();
    let (_, f0) = run_path(&[]);
    seen.insert(f0, vec![]);
    q.push_back(vec![]);
    let mut transitions = 0u64;
    let violations_before = l.violations.len();
    'bfs: while let Some(path) = q.pop_front() {
        for (i, _) in alpha.iter().enumerate() {
            let mut p2 = path.clone();
            p2.push(i);
            let (outs, fp) = run_path(&p2);
            transitions += 1;
            l.evaluations += 1;
            l.validated += 1;
            if !path.is_empty() {
                l.nontrivial += 1;
            }
            let got = outs.last().unwrap();
            if *got != table[i] {
                l.outcome("reader:history_dependent");
                l.violations.push(
                    Violation::new("C15", "call_result_depends_on_history", json!({"engine": "reader_bfs", "file": name, "path": p2.iter().map(|&j| alpha[j].name()).collect::<Vec<_>>()}))
                        .obs(json!(got))
                        .exp(json!(table[i])),
                );
            } else {
                l.outcome("reader:same_as_fresh");
            }
            if !seen.contains_key(&fp) {
                if seen.len() > 5000 {
                    // A reader whose state keeps growing under read-only calls: if history dependence has already been
                    // observed this is its symptom and the violations found so far are the verdict; otherwise the
                    // search cannot be completed and that is a failure of the machinery, not a verdict.
                    if l.violations.len() > violations_before {
                        l.outcome("reader:state_space_exceeds_cap_after_violation");
                        break 'bfs;
                    }
                    machinery_failure("C15: more than 5000 reader states — fingerprint is not canonical or the state space is unexpectedly large");
                }
                seen.insert(fp, p2.clone());
                q.push_back(p2);
            }
        }
    }
    *states_total += seen.len() as u64;
    *trans_total += transitions;
    l.samples.push(json!({"file": name, "alphabet": alpha.len(), "reachable_states": seen.len(), "transitions": transitions,
        "example_state_paths": seen.values().take(3).map(|p| p.iter().map(|&j| alpha[j].name()).collect::<Vec<_>>()).collect::<Vec<_>>()}));
    // cross-check: undeduplicated sweep of every sequence up to depth_sweep
    let a = alpha.len();
    let total = (a as u64).pow(depth_sweep as u32);
    let bad: Vec<Violation> = (0..total as usize)
        .into_par_iter()
        .filter_map(|idx| {
            let mut p = vec![];
            let mut i = idx;
            for _ in 0..depth_sweep {
                p.push(i % a);
                i /= a;
            }
            let (outs, _) = run_path(&p);
            for (j, o) in outs.iter().enumerate() {
                if *o != table[p[j]] {
                    return Some(
                        Violation::new("C15", "call_result_depends_on_history", json!({"engine": "reader_sweep", "file": name, "path": p.iter().map(|&j| alpha[j].name()).collect::<Vec<_>>()}))
                            .obs(json!(o))
                            .exp(json!(table[p[j]])),
                    );
                }
            }
            None
        })
        .collect();
    l.evaluations += total;
    l.validated += total;
    l.nontrivial += total;
    *trans_total += total * depth_sweep as u64;
    l.outcomes.entry("reader_sweep:sequences".into()).and_modify(|x| *x += total).or_insert(total);
    for v in bad {
        l.violations.push(v);
    }
}

pub fn run(tier: Tier, seed: u64) -> i32 {
    let mut ev = Evidence::new("C15", tier, seed, "model_checking");
    let rep = Reporter::new("C15");
    let mut l = Local::default();
    let th = tier == Tier::Thorough;
    let mut states = 0u64;
    let mut trans = 0u64;

    // ---- reader: whole reachable state graph
    let mut frag = canned("minimal_init.mp4");
    frag.extend(canned("minimal_fragment.m4s"));
    let mut files: Vec<(String, Vec<u8>)> = vec![
        ("mux:avc+aac".into(), muxed_baseline(seed, &[Kind::Avc, Kind::Aac])),
        ("canned:minimal.mp4".into(), canned("minimal.mp4")),
        ("canned:init+fragment".into(), frag),
    ];
    files.extend(crate::refmp4::kitchen::c15_files(tier));
    {
        // movie timescale 1 with tracks shorter than a second: the movie header duration is 0 while the tracks differ
        let m = MovieSpec::new(1, vec![TrackSpec::new(Kind::Avc, 1000), TrackSpec::new(Kind::Aac, 48000), TrackSpec::new(Kind::Ttxt, 10)]);
        let h = vec![Op { track: 1, size: 3, dur: 600, off: 0, sync: true }, Op { track: 2, size: 2, dur: 43200, off: 0, sync: true }, Op { track: 3, size: 0, dur: 3, off: 0, sync: true }, Op { track: 3, size: 4, dur: 4, off: 0, sync: true }];
        match mux(seed, &m, &h) {
            Ok(o) => files.push(("mux:movie-timescale-1,three-short-tracks".into(), o.bytes)),
            Err(e) => machinery_failure(&format!("C15 file does not mux: {}", e)),
        }
    }
    {
        // aliased chunk offsets: three chunks of ten variable-size samples, the third chunk stored at the file offset of the
        // first (legal: chunks may share data) — lookups in one chunk must not depend on earlier lookups in the other
        let m = MovieSpec::new(1000, vec![TrackSpec::new(Kind::Ttxt, 1000)]);
        let h: Vec<Op> = (0..30u32).map(|i| Op { track: 1, size: 1 + (i * 7 + i / 10) % 5, dur: 100, off: 0, sync: true }).collect();
        match mux(seed, &m, &h) {
            Ok(o) => {
                let mut b = o.bytes;
                match b.windows(4).position(|w| w == b"stco") {
                    Some(p) if u32::from_be_bytes([b[p + 8], b[p + 9], b[p + 10], b[p + 11]]) == 3 => {
                        let first: [u8; 4] = [b[p + 12], b[p + 13], b[p + 14], b[p + 15]];
                        b[p + 20..p + 24].copy_from_slice(&first);
                    }
                    _ => machinery_failure("C15 aliased-chunk file: expected one stco with 3 entries"),
                }
                files.push(("mux:ttxt,3 chunks of 10,third chunk aliased to the first".into(), b));
            }
            Err(e) => machinery_failure(&format!("C15 file does not mux: {}", e)),
        }
    }
    for (name, bytes) in files.iter() {
        reader_graph(name, bytes, bytes.len() as u64, if th { 3 } else { 2 }, &mut l, &mut states, &mut trans);
    }
    // streams that end inside the media data (declared length = original): some reads fail, and a failed
    // call must not influence later ones either
    for (name, bytes, declared) in crate::refmp4::kitchen::c15_truncated(tier) {
        reader_graph(&name, &bytes, declared, if th { 2 } else { 1 }, &mut l, &mut states, &mut trans);
    }

    // ---- long inputs: every lookup in ascending, then descending, then zig-zag order on ONE reader must give what the
    // logical movie says (= what a fresh reader gives): chunks of 300 variable-size samples interleaved over two tracks;
    // 70 and 130 fragments with run-less track fragments at multiples of 32 and elsewhere
    {
        use crate::refmp4::frag::*;
        use crate::refmp4::movie::*;
        let mut ll = Local::default();
        let mk = |id: u32, codec: Codec| {
            let samples: Vec<LSample> = (0..900).map(|i| LSample { size: 1 + ((i as u32 * 7 + id) % 5), delta: 3, cts: 0, sync: true }).collect();
            LTrack::simple(id, codec, 1000, samples, vec![300, 300, 300])
        };
        crate::props::c03::judge("C15", "long:interleaved_chunks_of_300", &LMovie::new(1000, vec![mk(1, Codec::Avc), mk(2, Codec::Aac)]), &mut ll);
        let opts = crate::props::c09::all_opts();
        for (nf, empty_at) in [(70usize, 32usize), (130, 64), (130, 31), (70, 33)] {
            for oi in [3usize, 200, 700] {
                let o = opts[oi % opts.len()];
                let m = LFragMovie {
                    movie_ts: 1000,
                    tracks: vec![LFragTrack { id: 1, codec: Codec::Avc, timescale: 12800, trex_default_duration: 9 }],
                    fragments: (0..nf).map(|i| vec![crate::props::c09::mk_run(1, &o, if i == empty_at { crate::props::c09::NO_TRUN } else { 1 + i % 2 }, i as u32)]).collect(),
                    mehd: None,
                    large_moof: false,
                    offsets_only: false,
                    fillers: 0,
                };
                crate::props::c09::judge("C15", "long:many_fragments_with_a_runless_one", &m, &mut ll);
            }
        }
        l.evaluations += ll.evaluations;
        l.validated += ll.validated;
        l.nontrivial += ll.nontrivial;
        trans += ll.transitions;
        for (k, v) in ll.outcomes {
            *l.outcomes.entry(format!("long_inputs:{}", k)).or_insert(0) += v;
        }
        l.violations.merge(ll.violations);
    }

    // ---- parsing twice: equal structures
    let mut parse_files = files.clone();
    parse_files.push(("canned:extended_audio_object_type.mp4".into(), canned("extended_audio_object_type.mp4")));
    parse_files.push(("canned:big_buck_bunny_metadata.m4v".into(), canned("big_buck_bunny_metadata.m4v")));
    for (name, bytes) in parse_files.iter() {
        let a = open(bytes).unwrap();
        let b = open(bytes).unwrap();
        l.evaluations += 1;
        l.validated += 1;
        let ja: Vec<Value> = [a.ftyp.to_json(), a.moov.to_json()].iter().map(|j| serde_json::from_str(j.as_ref().unwrap()).unwrap()).collect();
        let jb: Vec<Value> = [b.ftyp.to_json(), b.moov.to_json()].iter().map(|j| serde_json::from_str(j.as_ref().unwrap()).unwrap()).collect();
        let canon = |s: String| {
            let mut v: Vec<String> = s.lines().map(|x| x.to_string()).collect();
            v.sort();
            v
        };
        let ta: Vec<Vec<String>> = sorted_track_ids(&a).iter().map(|i| canon(format!("{:#?}", a.tracks()[i]))).collect();
        let tb: Vec<Vec<String>> = sorted_track_ids(&b).iter().map(|i| canon(format!("{:#?}", b.tracks()[i]))).collect();
        let acc = |r: &Mp4Reader<std::io::Cursor<&[u8]>>| format!("{:?} {} {:?} {} {:?} {}", r.duration(), r.timescale(), r.major_brand(), r.minor_version(), r.compatible_brands(), r.is_fragmented());
        let same = a.ftyp == b.ftyp && a.moov == b.moov && a.moofs == b.moofs && a.emsgs == b.emsgs && a.size() == b.size() && ja == jb && ta == tb && acc(&a) == acc(&b);
        // accessors that might consult an unordered container: a few more independent instances
        let first = acc(&a);
        let more_same = (0..6).all(|_| acc(&open(bytes).unwrap()) == first);
        if same && more_same {
            l.outcome("parse_twice:equal");
        } else {
            l.violations.push(Violation::new("C15", "opening_same_bytes_twice_differs", json!({"engine": "parse_twice", "file": name})));
        }
    }

    // ---- muxing twice: byte-identical (the C01 history space, each history muxed twice)
    let fams: Vec<_> = crate::props::c01::families(Tier::Quick).into_iter().filter(|f| th || !f.name.starts_with("a:")).collect();
    let s = explore(&fams, std::time::Duration::from_secs(if th { 1200 } else { 40 }), &rep, |fam, h, _dup, l| {
        let a = mux(seed, &fam.movie, h);
        let b = mux(seed, &fam.movie, h);
        l.transitions += 2 * (2 + h.len() as u64);
        l.validated += 1;
        if h.len() >= 2 {
            l.nontrivial += 1;
        }
        match (a, b) {
            (Ok(a), Ok(b)) if a.bytes == b.bytes && a.calls == b.calls => l.outcome("mux_twice:identical"),
            (Err(a), Err(b)) if a == b => l.outcome("mux_twice:same_failure"),
            _ => {
                l.outcome("mux_twice:DIFFERENT");
                l.violations.push(Violation::new("C15", "muxing_same_history_twice_differs", json!({"engine": "mux_twice", "family": fam.name, "config": fam.movie.to_json(), "history": hist_json(h), "seed": seed})));
            }
        }
    });

    // ---- muxing twice over the configuration space: brand lists (with repeats), every kind, languages, every AAC
    // object type, two-track movies; two small histories each
    let cfgs = config_grid();
    let ncfg = cfgs.len();
    let cfg_local = cfgs
        .par_iter()
        .fold(Local::default, |mut l, m| {
            let hs = grid_histories(m);
            for h in hs {
                l.evaluations += 1;
                l.validated += 1;
                l.nontrivial += 1;
                l.transitions += 2 * (3 + h.len() as u64);
                let a = mux(seed, m, &h);
                let b = mux(seed, m, &h);
                match (a, b) {
                    (Ok(a), Ok(b)) if a.bytes == b.bytes && a.calls == b.calls => l.outcome("mux_twice_config:identical"),
                    (Err(a), Err(b)) if a == b => l.outcome("mux_twice_config:same_failure"),
                    _ => {
                        l.outcome("mux_twice_config:DIFFERENT");
                        l.violations.push(Violation::new("C15", "muxing_same_history_twice_differs", json!({"engine": "mux_twice_config", "config": m.to_json(), "history": hist_json(&h), "seed": seed})));
                    }
                }
            }
            l
        })
        .reduce(Local::default, |mut a, b| {
            a.evaluations += b.evaluations;
            a.validated += b.validated;
            a.nontrivial += b.nontrivial;
            a.transitions += b.transitions;
            for (k, v) in b.outcomes {
                *a.outcomes.entry(k).or_insert(0) += v;
            }
            a.violations.merge(b.violations);
            a
        });
    l.evaluations += cfg_local.evaluations;
    l.validated += cfg_local.validated;
    l.nontrivial += cfg_local.nontrivial;
    trans += cfg_local.transitions;
    for (k, v) in cfg_local.outcomes {
        *l.outcomes.entry(k).or_insert(0) += v;
    }
    l.violations.merge(cfg_local.violations);
    ev.set("mux_twice_configurations", json!({"configs": ncfg, "what": "mux::config_grid: all brand lists of length <= 4 over 4 values (with repeats), 5 kinds x 5 languages, 25 two-track kind pairs, 42 AAC object types x 4 frequency indices x 3 channel configurations, 25 parameter-set length pairs; 2-3 histories each"}));

    let mut outcomes = l.outcomes.clone();
    for (k, v) in s.total.outcomes.iter() {
        *outcomes.entry(k.clone()).or_insert(0) += v;
    }
    ev.set("evaluations", json!(l.evaluations + s.total.evaluations));
    ev.set("states", json!(states));
    ev.set("transitions", json!(trans + s.total.transitions));
    ev.set("traces_validated_against_impl", json!(l.validated + s.total.validated));
    ev.set("distinct_nontrivial", json!(l.nontrivial + s.total.nontrivial));
    ev.set("rule", json!("reader: one case = one call applied in one reachable reader state (BFS over fingerprints, every call of the alphabet in every state) or one call sequence of the undeduplicated cross-check sweep; non-trivial = applied after at least one earlier call. muxer: one case = one history muxed twice; non-trivial = >= 2 calls"));
    ev.set("exhaustive", json!(s.caps_hit.is_empty()));
    ev.set("caps_hit", json!(s.caps_hit));
    ev.set("outcome_classes", Value::Object(outcomes.into_iter().map(|(k, v)| (k, json!(v))).collect()));
    ev.set("bound", json!("reader: the complete reachable state graph under the call alphabet (search ends when no new fingerprint appears), plus all call sequences up to depth 2 (quick) / 3 (thorough) without de-duplication; muxer: C01's quick history space (without family a in quick), each history twice"));
    ev.set("mux_families", Value::Array(s.families.clone()));
    ev.set("samples", Value::Array(l.samples.clone()));
    ev.assume("state fingerprint = sorted lines of the pretty Debug rendering of the whole Mp4Reader (derive(Debug) prints every field) + stream position; equal fingerprints are taken as equal states");
    let v = std::mem::take(&mut l.violations);
    v.drain_into(&rep);
    conclude(&ev, &rep)
}
