pub mod c16;
pub mod c01;
