pub mod c16;
pub mod c01;
pub mod c10;
pub mod c11;
