pub mod c16;
