pub mod c16;
pub mod c01;
pub mod c10;
pub mod c11;
pub mod c15;
pub mod c14;
pub mod c17;
pub mod c02;
