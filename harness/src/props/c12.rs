//! C12 — the parse result is independent of physical layout choices (engine E2 + tree transforms).

use crate::common::*;
use crate::hist::Local;
use crate::mux::{open, sorted_track_ids};
use crate::props::c03::{judge_file, movie_json};
use crate::props::c09;
use crate::refmp4::build::*;
use crate::refmp4::frag::*;
use crate::refmp4::movie::*;
use crate::refmp4::tree::*;
use mp4::{Metadata, Mp4Reader};
use rayon::prelude::*;
use serde_json::{json, Value};
use std::io::Cursor;

const ITERATING: [&[u8; 4]; 18] = [b"moov", b"trak", b"mdia", b"minf", b"stbl", b"dinf", b"dref", b"udta", b"meta", b"ilst", b"\xa9nam", b"\xa9day", b"covr", b"desc", b"mvex", b"moof", b"traf", b"avc1"];
const ITERATING2: [&[u8; 4]; 2] = [b"mp4a", b"wave"];
const UNORDERED: [&[u8; 4]; 10] = [b"moov", b"trak", b"mdia", b"minf", b"stbl", b"udta", b"mvex", b"traf", b"ilst", b"meta"];
const SPARE_OK: [&[u8; 4]; 21] = [b"mvhd", b"tkhd", b"mdhd", b"vmhd", b"smhd", b"stts", b"ctts", b"stss", b"stsc", b"stsz", b"stco", b"co64", b"elst", b"mehd", b"trex", b"mfhd", b"tfhd", b"tfdt", b"trun", b"hdlr", b"url "];

fn iterating(cc: &[u8; 4]) -> bool {
    ITERATING.iter().any(|c| *c == cc) || ITERATING2.iter().any(|c| *c == cc)
}

fn all_paths(nodes: &[Node], prefix: &mut Vec<usize>, out: &mut Vec<Vec<usize>>) {
    for (i, n) in nodes.iter().enumerate() {
        prefix.push(i);
        out.push(prefix.clone());
        if let Some(k) = n.children() {
            all_paths(k, prefix, out);
        }
        prefix.pop();
    }
}

fn node_at<'a>(nodes: &'a [Node], path: &[usize]) -> &'a Node {
    let n = &nodes[path[0]];
    if path.len() == 1 {
        n
    } else {
        node_at(n.children().unwrap(), &path[1..])
    }
}

fn node_at_mut<'a>(nodes: &'a mut [Node], path: &[usize]) -> &'a mut Node {
    let n = &mut nodes[path[0]];
    if path.len() == 1 {
        n
    } else {
        node_at_mut(n.children_mut().unwrap(), &path[1..])
    }
}

fn path_name(nodes: &[Node], path: &[usize]) -> String {
    let mut s = String::new();
    let mut cur = nodes;
    for &i in path {
        s.push('/');
        s.push_str(&cur[i].name());
        if let Some(k) = cur[i].children() {
            cur = k;
        }
    }
    s
}

fn is_qt_meta(n: &Node) -> bool {
    if &n.cc != b"meta" {
        return false;
    }
    matches!(&n.body, Body::Kids { prefix, .. } if prefix.is_empty())
}

/// Every single layout transformation of `nodes`: (description, transformed tree).
pub fn transforms(nodes: &[Node], fragmented: bool) -> Vec<(String, Vec<Node>)> {
    let mut out: Vec<(String, Vec<Node>)> = vec![];
    let fillers: Vec<(&str, Node)> = vec![("free", free(5)), ("unknown", unknown(b"zzzz", 3)), ("free64", free(2).with_large(true)), ("unknown64", unknown(b"uuid", 17).with_large(true))];
    let mut paths = vec![];
    all_paths(nodes, &mut vec![], &mut paths);
    // 1. insertions: top level
    for pos in 0..=nodes.len() {
        for (fname, f) in fillers.iter() {
            let mut t = nodes.to_vec();
            t.insert(pos, f.clone());
            out.push((format!("insert {} at top level index {}", fname, pos), t));
        }
    }
    // 1b. insertions inside every iterating container
    for p in paths.iter() {
        let n = node_at(nodes, p);
        if !iterating(&n.cc) {
            continue;
        }
        let nk = match n.children() {
            Some(k) => k.len(),
            None => continue,
        };
        let first = if is_qt_meta(n) { 1 } else { 0 };
        for pos in first..=nk {
            for (fname, f) in fillers.iter() {
                let mut t = nodes.to_vec();
                let c = node_at_mut(&mut t, p);
                c.children_mut().unwrap().insert(pos, f.clone());
                if &c.cc == b"dref" {
                    if let Body::Kids { prefix, kids, .. } = &mut c.body {
                        let n = kids.len() as u32;
                        prefix[4..8].copy_from_slice(&n.to_be_bytes());
                    }
                }
                out.push((format!("insert {} in {} at index {}", fname, path_name(nodes, p), pos), t));
            }
        }
    }
    // 2. sibling order
    for p in paths.iter() {
        let n = node_at(nodes, p);
        if !UNORDERED.iter().any(|c| **c == n.cc) {
            continue;
        }
        let nk = n.children().map(|k| k.len()).unwrap_or(0);
        if nk < 2 {
            continue;
        }
        let lo = if is_qt_meta(n) { 1 } else { 0 };
        let mut perms: Vec<Vec<usize>> = vec![];
        let idx: Vec<usize> = (lo..nk).collect();
        if idx.len() <= 5 {
            fn permute(k: usize, a: &mut Vec<usize>, out: &mut Vec<Vec<usize>>) {
                if k == a.len() {
                    out.push(a.clone());
                    return;
                }
                for i in k..a.len() {
                    a.swap(k, i);
                    permute(k + 1, a, out);
                    a.swap(k, i);
                }
            }
            permute(0, &mut idx.clone(), &mut perms);
            perms.retain(|q| *q != idx);
        } else {
            for i in 0..idx.len() - 1 {
                let mut q = idx.clone();
                q.swap(i, i + 1);
                perms.push(q);
            }
            let mut q = idx.clone();
            q.reverse();
            perms.push(q);
            // every child moved to the front / to the end (e.g. an optional table after all mandatory ones)
            for i in 0..idx.len() {
                let mut q = idx.clone();
                let x = q.remove(i);
                q.push(x);
                perms.push(q);
                let mut q = idx.clone();
                let x = q.remove(i);
                q.insert(0, x);
                perms.push(q);
            }
            perms.sort();
            perms.dedup();
            perms.retain(|q| *q != idx);
        }
        for q in perms {
            let mut t = nodes.to_vec();
            let c = node_at_mut(&mut t, p);
            let kids = c.children_mut().unwrap();
            let old = kids.clone();
            for (j, &src) in q.iter().enumerate() {
                kids[lo + j] = old[src].clone();
            }
            out.push((format!("reorder children of {} as {:?}", path_name(nodes, p), q), t));
        }
    }
    if !fragmented {
        // media data before / after the movie header
        let mi = nodes.iter().position(|n| &n.cc == b"mdat");
        let vi = nodes.iter().position(|n| &n.cc == b"moov");
        if let (Some(mi), Some(vi)) = (mi, vi) {
            let mut t = nodes.to_vec();
            t.swap(mi, vi);
            out.push(("swap mdat and moov".into(), t));
        }
    }
    // 3. 64-bit size headers: each box alone, and all boxes
    for p in paths.iter() {
        let mut t = nodes.to_vec();
        let c = node_at_mut(&mut t, p);
        if c.large {
            continue;
        }
        c.large = true;
        out.push((format!("64-bit header on {}", path_name(nodes, p)), t));
    }
    {
        let mut t = nodes.to_vec();
        for p in paths.iter() {
            node_at_mut(&mut t, p).large = true;
        }
        out.push(("64-bit header on every box".into(), t));
    }
    // 3b. the last top-level box declares size 0 ("extends to the end of the file")
    if let Some(last) = nodes.last() {
        if !last.open_ended && (&last.cc == b"mdat" || &last.cc == b"free" || &last.cc == b"skip") {
            let mut t = nodes.to_vec();
            t.last_mut().unwrap().open_ended = true;
            out.push((format!("last top-level box ({}) written with size 0", last.name()), t));
        }
    }
    // 4. spare bytes after the last field
    for p in paths.iter() {
        let n = node_at(nodes, p);
        if !SPARE_OK.iter().any(|c| **c == n.cc) {
            continue;
        }
        for extra in [1usize, 8, 12, 16, 24] {
            // printable, all ones (not UTF-8, huge as a number), zero
            for fill in [0x5cu8, 0xff, 0x00] {
                if fill != 0x5c && extra > 8 && &n.cc != b"hdlr" {
                    continue;
                }
                let mut t = nodes.to_vec();
                node_at_mut(&mut t, p).spare = vec![fill; extra];
                out.push((format!("{} spare byte(s) {:02x} at the end of {}", extra, fill, path_name(nodes, p)), t));
            }
        }
    }
    out
}

/// Logical (layout-independent) digest of an opened file.
fn logical_digest<R: std::io::Read + std::io::Seek>(r: &Mp4Reader<R>) -> Result<Vec<String>, String> {
    guard(|| {
        let mut v = vec![];
        v.push(format!("brands {:?} {} {:?}", r.major_brand(), r.minor_version(), r.compatible_brands()));
        v.push(format!("movie {:?} {} frag={}", r.duration(), r.timescale(), r.is_fragmented()));
        let m = r.metadata();
        v.push(format!("meta {:?} {:?} {:?} {:?}", m.title(), m.year(), m.poster().map(|p| fnv(p)), m.summary()));
        for id in sorted_track_ids(r) {
            let t = &r.tracks()[&id];
            v.push(format!(
                "track {} {:?} {:?} {:?} {}x{} {} {} {:?} {} {} {:?} {:?} {:?} {:?} {:?} edts={:?}",
                t.track_id(),
                t.track_type().ok(),
                t.media_type().ok(),
                t.box_type().ok(),
                t.width(),
                t.height(),
                t.language(),
                t.timescale(),
                t.duration(),
                t.bitrate(),
                t.sample_count(),
                t.video_profile().ok(),
                t.sequence_parameter_set().ok().map(|b| b.to_vec()),
                t.audio_profile().ok(),
                t.sample_freq_index().ok(),
                t.channel_config().ok(),
                t.trak.edts
            ));
            v.push(format!("stsd {:?}", t.trak.mdia.minf.stbl.stsd));
            v.push(format!("hdlr {:?} tkhd {:?}", t.trak.mdia.hdlr, (t.trak.tkhd.track_id, t.trak.tkhd.duration, t.trak.tkhd.width, t.trak.tkhd.height, t.trak.tkhd.flags)));
        }
        v
    })
    .map_err(|p| short_loc(&p))
}

fn merge(a: &mut Local, b: Local) {
    a.evaluations += b.evaluations;
    a.transitions += b.transitions;
    a.validated += b.validated;
    a.nontrivial += b.nontrivial;
    for (k, v) in b.outcomes {
        *a.outcomes.entry(k).or_insert(0) += v;
    }
    a.violations.merge(b.violations);
    if a.samples.len() < 4 {
        a.samples.extend(b.samples);
    }
}

fn progressive_movies() -> Vec<(String, LMovie, Option<usize>)> {
    let mut v = vec![];
    let s = |n: usize| -> Vec<LSample> { (0..n).map(|i| LSample { size: 1 + (i as u32 % 3), delta: 10 + i as u32, cts: if i % 2 == 1 { 4 } else { 0 }, sync: i % 2 == 0 }).collect() };
    // AVC + AAC, all optional tables, metadata, edit lists
    let mut t1 = LTrack::simple(1, Codec::Avc, 1000, s(3), vec![2, 1]);
    t1.ctts = Some(0);
    t1.stss = true;
    t1.edts = Some(0);
    let mut t2 = LTrack::simple(2, Codec::Aac, 48000, s(3), vec![1, 1, 1]);
    t2.co64 = true;
    t2.edts = Some(1);
    let mut m = LMovie::new(1000, vec![t1, t2]);
    m.moov_extra = vec![udta(vec![meta(true, vec![hdlr(0, 0, b"mdir", ""), ilst(vec![ilst_item(&[0xa9, b'n', b'a', b'm'], 1, b"Title"), ilst_item(&[0xa9, b'd', b'a', b'y'], 1, b"2024"), ilst_item(b"covr", 13, &[1, 2, 3]), ilst_item(b"desc", 1, b"Summary")])])])];
    v.push(("avc+aac with metadata".to_string(), m, None));
    // HEVC + TTXT, QuickTime-form meta, constant sample size
    let mut t1 = LTrack::simple(1, Codec::Hevc, 90000, (0..2).map(|_| LSample { size: 2, delta: 3000, cts: 0, sync: true }).collect(), vec![2]);
    t1.const_size = true;
    let t2 = LTrack::simple(2, Codec::Tx3g, 1000, s(2), vec![1, 1]);
    let mut m = LMovie::new(600, vec![t1, t2]);
    m.moov_extra = vec![udta(vec![meta(false, vec![hdlr(0, 0, b"mdir", ""), ilst(vec![ilst_item(&[0xa9, b'n', b'a', b'm'], 1, b"QT")])])])];
    v.push(("hevc+ttxt with QuickTime meta".to_string(), m, None));
    // VP9 alone, mdat first
    let mut t1 = LTrack::simple(1, Codec::Vp9, 1000, s(3), vec![1, 2]);
    t1.ctts = Some(1);
    t1.samples[1].cts = -3;
    let mut m = LMovie::new(1000, vec![t1]);
    m.mdat_first = true;
    v.push(("vp9, mdat first".to_string(), m, None));
    // VP9 + AAC in the QuickTime form (mp4a v1 with esds inside `wave`), a meta box directly in moov as well as in udta
    let t1 = LTrack::simple(1, Codec::Vp9, 30, s(2), vec![1, 1]);
    let t2 = LTrack::simple(2, Codec::Aac, 44100, s(3), vec![2, 1]);
    let mut m = LMovie::new(1000, vec![t1, t2]);
    m.moov_extra = vec![meta(true, vec![hdlr(0, 0, b"mdta", "x"), unknown(b"keys", 12)]), udta(vec![Node::leaf(b"name", b"n".to_vec()), meta(true, vec![hdlr(0, 0, b"mdir", ""), ilst(vec![ilst_item(&[0xa9, b'd', b'a', b'y'], 0, &2020u32.to_be_bytes())])])])];
    m.top_front = vec![free(4)];
    v.push(("vp9+aac(wave), moov-level meta, binary year".to_string(), m, Some(1)));
    v
}

fn fragmented_movies() -> Vec<(String, LFragMovie)> {
    let opts = c09::all_opts();
    let pick = |f: &dyn Fn(&c09::Opt) -> bool| opts.iter().find(|o| f(o)).cloned().unwrap();
    let a = pick(&|o| o.base == Base::DefaultBaseIsMoof && o.psd && o.cts == Some(0) && !o.before && o.tfdt_v == 1 && o.base_time == 5 && o.fdd);
    let b = pick(&|o| matches!(o.base, Base::Explicit { at_moof: true }) && !o.psd && o.cts.is_none() && o.before && o.tfdt_v == 0 && o.base_time == 5 && o.fdd);
    let c = pick(&|o| o.base == Base::Neither && !o.psd && !o.fdd && o.cts == Some(1) && !o.before && o.tfdt_v == 1 && o.base_time == (1u64 << 32) + 5);
    vec![
        ("one track, two fragments".to_string(), LFragMovie { movie_ts: 1000, tracks: vec![LFragTrack { id: 1, codec: Codec::Avc, timescale: 12800, trex_default_duration: 9 }], fragments: vec![vec![c09::mk_run(1, &a, 2, 0)], vec![c09::mk_run(1, &c, 2, 1)]], mehd: Some(0), large_moof: false, offsets_only: false, fillers: 0 }),
        (
            "two tracks, both in each fragment".to_string(),
            LFragMovie {
                movie_ts: 600,
                tracks: vec![LFragTrack { id: 1, codec: Codec::Hevc, timescale: 90000, trex_default_duration: 9 }, LFragTrack { id: 2, codec: Codec::Aac, timescale: 44100, trex_default_duration: 9 }],
                fragments: vec![vec![c09::mk_run(1, &a, 1, 0), c09::mk_run(2, &b, 2, 1)], vec![c09::mk_run(2, &a, 1, 2), c09::mk_run(1, &b, 1, 3)]],
                mehd: None,
                large_moof: false,
                offsets_only: false,
                fillers: 0,
            },
        ),
    ]
}

pub fn run(tier: Tier, seed: u64) -> i32 {
    let mut ev = Evidence::new("C12", tier, seed, "model_checking");
    let rep = Reporter::new("C12");
    let _ = tier;
    let th = true; // every pair of transformations costs ~10 s: done in both tiers
    let mut l = Local::default();
    let mut fams = vec![];

    for (name, m, wave) in progressive_movies() {
        let mut base_nodes = nodes(&m);
        if let Some(ti) = wave {
            crate::refmp4::kitchen::wrap_mp4a_in_wave(&mut base_nodes, ti);
        }
        let (b0, a0) = serialize(&base_nodes);
        let d0 = match open(&b0).map_err(|e| e).and_then(|r| logical_digest(&r)) {
            Ok(d) => d,
            Err(e) => machinery_failure(&format!("C12 baseline '{}' does not open: {}", name, e)),
        };
        judge_file("C12", &format!("{}: untransformed", name), &m, &b0, a0["mdat"].1, Value::Null, &mut l);
        let singles = transforms(&base_nodes, false);
        let n1 = singles.len();
        let check = |desc: &str, t: &[Node], l: &mut Local| {
            let (bytes, anchors) = serialize(t);
            let extra = json!({"transform": desc});
            let before = l.violations.len();
            judge_file("C12", &name, &m, &bytes, anchors["mdat"].1, extra.clone(), l);
            if let Ok(r) = open(&bytes) {
                match logical_digest(&r) {
                    Ok(d) if d == d0 => {}
                    Ok(d) => {
                        let diff = d.iter().zip(d0.iter()).find(|(a, b)| a != b).map(|(a, b)| json!({"got": a, "untransformed": b}));
                        let mut c = json!({"engine": "layout", "movie_name": name, "movie": movie_json(&m), "transform": desc});
                        if bytes.len() <= 4096 {
                            c["input_hex"] = json!(hex(&bytes));
                        }
                        l.violations.push(Violation::new("C12", "tracks_or_metadata_differ_from_untransformed", c).obs(json!(diff)));
                    }
                    Err(p) => l.violations.push(Violation::new("C12", "accessor_panicked", json!({"engine": "layout", "movie_name": name, "transform": desc})).obs(json!(p))),
                }
            }
            if l.violations.len() == before {
                l.nontrivial += 1;
            }
        };
        let r = singles
            .par_iter()
            .fold(Local::default, |mut l, (desc, t)| {
                check(desc, t, &mut l);
                if th {
                    // pairs: every single transform of the transformed tree
                    for (d2, t2) in transforms(t, false) {
                        check(&format!("{} + {}", desc, d2), &t2, &mut l);
                    }
                }
                l
            })
            .reduce(Local::default, |mut a, b| {
                merge(&mut a, b);
                a
            });
        merge(&mut l, r);
        fams.push(json!({"movie": name, "single_transforms": n1, "pairs": th}));
        l.samples.push(json!({"movie": name, "transform": singles[singles.len() / 2].0}));
    }

    for (name, m) in fragmented_movies() {
        let init = init_nodes(&m);
        let (media, exp) = media_nodes(&m);
        let mut all = init.clone();
        all.extend(media.iter().cloned());
        let (b0, _) = serialize(&all);
        let d0 = match guard(|| Mp4Reader::read_header(Cursor::new(&b0[..]), b0.len() as u64)) {
            Ok(Ok(r)) => logical_digest(&r).unwrap_or_else(|e| machinery_failure(&e)),
            _ => machinery_failure(&format!("C12 fragmented baseline '{}' does not open", name)),
        };
        let singles = transforms(&all, true);
        let n1 = singles.len();
        let check = |desc: &str, t: &[Node], l: &mut Local| {
            let (bytes, anchors) = serialize(t);
            l.evaluations += 1;
            match guard(|| Mp4Reader::read_header(Cursor::new(&bytes[..]), bytes.len() as u64)) {
                Ok(Ok(mut r)) => {
                    l.validated += 1;
                    let fam = format!("{}: {}", name, desc);
                    let hexs = if bytes.len() <= 4096 { Some(hex(&bytes)) } else { None };
                    let ok = c09::compare_pub("C12", "one_stream", &fam, &m, &mut r, &exp, &anchors, hexs, l);
                    let d = logical_digest(&r);
                    if d.as_ref().ok() != Some(&d0) {
                        l.violations.push(Violation::new("C12", "tracks_or_metadata_differ_from_untransformed", json!({"engine": "layout_frag", "movie_name": name, "transform": desc})).obs(json!(format!("{:?}", d))));
                    } else if ok {
                        l.nontrivial += 1;
                        l.outcome("ok:fragmented");
                    }
                }
                o => {
                    l.violations.push(Violation::new("C12", "transformed_file_does_not_open", json!({"engine": "layout_frag", "movie_name": name, "transform": desc, "input_hex": hex(&bytes)})).obs(json!(format!("{:?}", o.map(|r| r.map(|_| ()).map_err(|e| e.to_string()))))));
                }
            }
        };
        let r = singles
            .par_iter()
            .fold(Local::default, |mut l, (desc, t)| {
                check(desc, t, &mut l);
                if th {
                    for (d2, t2) in transforms(t, true) {
                        check(&format!("{} + {}", desc, d2), &t2, &mut l);
                    }
                }
                l
            })
            .reduce(Local::default, |mut a, b| {
                merge(&mut a, b);
                a
            });
        merge(&mut l, r);
        fams.push(json!({"movie": name, "single_transforms": n1, "pairs": th, "fragmented": true}));

        // the same movie delivered as initialization segment + separately opened media segment: every single
        // transformation of the media segment
        let (ib, _) = serialize(&init);
        let seg_singles = transforms(&media, true);
        let ns = seg_singles.len();
        let r = seg_singles
            .par_iter()
            .fold(Local::default, |mut l, (desc, t)| {
                let (mb, anchors) = serialize(t);
                l.evaluations += 1;
                let opened = guard(|| Mp4Reader::read_header(Cursor::new(&ib[..]), ib.len() as u64).and_then(|i| i.read_fragment_header(Cursor::new(&mb[..]), mb.len() as u64)));
                match opened {
                    Ok(Ok(mut r)) => {
                        l.validated += 1;
                        let fam = format!("{}: {}", name, desc);
                        let hexs = if ib.len() + mb.len() <= 4096 { Some(format!("{}|{}", hex(&ib), hex(&mb))) } else { None };
                        if c09::compare_pub("C12", "separate_segments", &fam, &m, &mut r, &exp, &anchors, hexs, &mut l) {
                            l.nontrivial += 1;
                            l.outcome("ok:fragmented_separate_segment");
                        }
                    }
                    o => {
                        l.violations.push(Violation::new("C12", "transformed_file_does_not_open", json!({"engine": "layout_frag_segment", "movie_name": name, "transform": desc, "input_hex": format!("{}|{}", hex(&ib), hex(&mb))})).obs(json!(format!("{:?}", o.map(|r| r.map(|_| ()).map_err(|e| e.to_string()))))));
                    }
                }
                l
            })
            .reduce(Local::default, |mut a, b| {
                merge(&mut a, b);
                a
            });
        merge(&mut l, r);
        fams.push(json!({"movie": name, "delivery": "initialization segment + separately opened media segment", "single_transforms_of_the_segment": ns}));
    }

    ev.set("evaluations", json!(l.evaluations));
    ev.set("states", json!(l.evaluations));
    ev.set("transitions", json!(l.transitions));
    ev.set("traces_validated_against_impl", json!(l.validated));
    ev.set("distinct_nontrivial", json!(l.nontrivial));
    ev.set("rule", json!("one case = one physical variant of a logical movie: the reference box tree with one (quick) or two (thorough) layout transformations applied at a specific position, re-serialised with dependent offsets recomputed, and opened by the real reader; non-trivial = every per-sample result (offsets shifted by exactly the layout change), track accessor and metadata answer equals the untransformed movie's"));
    ev.set("movies", Value::Array(fams));
    ev.set("exhaustive", json!(true));
    ev.set("transform_kinds", json!(["insert free / unknown box (compact and 64-bit header) at every child index of the top level and of every iterating container (moov, trak, mdia, minf, stbl, dinf, dref (+entry_count), udta, meta, ilst, items, mvex, moof, traf, avc1, mp4a)", "every permutation (<= 5 children) or all adjacent transpositions + reversal of order-free siblings; mdat before/after moov; hdlr kept first in the version-less QuickTime meta", "64-bit size header on each single box and on all boxes", "1, 8, 12, 16 and 24 spare bytes (incl. whole-entry multiples) after the last field of every fixed-layout / table box"]));
    ev.set("outcome_classes", Value::Object(l.outcomes.iter().map(|(k, v)| (k.clone(), json!(v))).collect()));
    ev.set("samples", Value::Array(l.samples.clone()));
    ev.assume("hev1, vp09, stsd and edts do not iterate over children in the library, so insertion inside them is outside the statement and is not generated");
    let v = std::mem::take(&mut l.violations);
    v.drain_into(&rep);
    conclude(&ev, &rep)
}
