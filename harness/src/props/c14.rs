//! C14 — track and movie configuration survives mux -> demux (exhaustive on the enumerable parts).

use crate::common::*;
use crate::hist::Local;
use crate::mux::*;
use mp4::*;
use rayon::prelude::*;
use serde_json::{json, Value};
use std::convert::TryFrom;

fn small_histories(ts: u32) -> Vec<Vec<Op>> {
    let ops = [
        Op { track: 1, size: 1, dur: ts / 2, off: 0, sync: true },
        Op { track: 1, size: 2, dur: ts, off: 3, sync: false },
        Op { track: 1, size: 0, dur: ts / 3 + 1, off: 0, sync: true },
        Op { track: 1, size: 3, dur: 1, off: -2, sync: false },
    ];
    let mut v = vec![vec![]];
    for a in ops.iter() {
        v.push(vec![*a]);
        for b in ops.iter() {
            v.push(vec![*a, *b]);
        }
    }
    // one longer history: rounding errors of per-sample conversions would accumulate here
    v.push((0..9).map(|i| Op { track: 1, size: 1 + i % 2, dur: ts / 3 + 7, off: 0, sync: i == 0 }).collect());
    v
}

fn two_histories(ts: u32) -> Vec<Vec<Op>> {
    vec![vec![], vec![Op { track: 1, size: 2, dur: ts / 2 + 1, off: 0, sync: true }, Op { track: 1, size: 1, dur: ts, off: 4, sync: false }]]
}

/// Annex A table, independent of the library's.
fn ref_profile(p: u8, c: u8) -> Option<&'static str> {
    match p {
        66 if (c >> 6) & 1 == 1 => Some("Constrained Baseline"),
        66 => Some("Baseline"),
        77 => Some("Main"),
        88 => Some("Extended"),
        100 => Some("High"),
        _ => None,
    }
}

fn judge(seed: u64, movie_as_configured: &MovieSpec, h: &[Op], what: &str, l: &mut Local) {
    let movie = movie_as_configured;
    l.evaluations += 1;
    l.transitions += (3 + h.len()) as u64;
    let case = || json!({"engine": "config", "enumeration": what, "config": movie.to_json(), "history": hist_json(h), "seed": seed});
    let mut fail = |clause: &str, tag: &str, obs: Value, exp: Value, l: &mut Local| {
        let mut v = Violation::new("C14", clause, case()).obs(obs).exp(exp);
        if !tag.is_empty() {
            v = v.tag(tag);
        }
        l.violations.push(v);
    };
    let out = match mux(seed, movie, h) {
        Ok(o) => o,
        Err(e) => {
            fail("muxer_panicked", "", json!(e), Value::Null, l);
            return;
        }
    };
    // add_track may be refused for configurations that cannot be represented (statement-level model); the movie then
    // consists of the accepted tracks, numbered in the order they were added
    let nspecs = movie.tracks.len();
    let acc = accepted_tracks(&out.calls, nspecs);
    let refused_ok = (0..nspecs).all(|i| acc.contains(&i) || movie.tracks[i].model_may_refuse());
    let others_ok = out.calls.iter().enumerate().all(|(i, r)| r.is_ok() || (i >= 1 && i <= nspecs) || (i > nspecs && i <= nspecs + h.len() && h[i - nspecs - 1].track as usize > acc.len()));
    if !refused_ok || !others_ok {
        let (i, e) = out.calls.iter().enumerate().find(|(i, r)| r.is_err() && !(*i >= 1 && *i <= nspecs && movie.tracks[*i - 1].model_may_refuse())).unwrap_or((0, &out.calls[0]));
        fail("muxer_rejected_documented_config", "", json!({"call": i, "err": format!("{:?}", e)}), Value::Null, l);
        return;
    }
    let accepted_movie = MovieSpec { tracks: acc.iter().map(|&i| movie.tracks[i].clone()).collect(), ..movie.clone() };
    let movie = &accepted_movie;
    let r = match open(&out.bytes) {
        Ok(r) => r,
        Err(e) => {
            fail("open_failed", "", json!(e), Value::Null, l);
            return;
        }
    };
    l.validated += 1;
    let before = l.violations.len();
    // file level
    if r.major_brand().value != movie.major {
        fail("major_brand", "", json!(r.major_brand().value), json!(movie.major), l);
    }
    if r.minor_version() != movie.minor {
        fail("minor_version", "", json!(r.minor_version()), json!(movie.minor), l);
    }
    let cb: Vec<[u8; 4]> = r.compatible_brands().iter().map(|b| b.value).collect();
    if cb != movie.compat {
        fail("compatible_brands", "", json!(cb), json!(movie.compat), l);
    }
    if r.timescale() != movie.timescale {
        fail("movie_timescale", "", json!(r.timescale()), json!(movie.timescale), l);
    }
    let ids = sorted_track_ids(&r);
    if ids != (1..=movie.tracks.len() as u32).collect::<Vec<_>>() {
        fail("track_ids", "", json!(ids), json!(movie.tracks.len()), l);
        return;
    }
    let mut longest_s = 0f64;
    for (i, spec) in movie.tracks.iter().enumerate() {
        let id = i as u32 + 1;
        let t = &r.tracks()[&id];
        let tt = spec.track_type.unwrap_or(spec.kind.track_type());
        let got_tt = guard(|| t.track_type().map_err(|e| e.to_string()));
        if got_tt != Ok(Ok(tt)) {
            fail("track_type", "", json!(format!("{:?}", got_tt)), json!(tt.to_string()), l);
        }
        let got_mt = guard(|| t.media_type().map_err(|e| e.to_string()));
        if got_mt != Ok(Ok(spec.kind.media_type())) {
            fail("media_type", "", json!(format!("{:?}", got_mt)), json!(spec.kind.media_type().to_string()), l);
        }
        let code: &[u8; 4] = match spec.kind {
            Kind::Avc => b"avc1",
            Kind::Hevc => b"hev1",
            Kind::Vp9 => b"vp09",
            Kind::Aac => b"mp4a",
            Kind::Ttxt => b"tx3g",
        };
        if guard(|| t.box_type().map(|f| f.value).map_err(|e| e.to_string())) != Ok(Ok(*code)) {
            fail("codec_box_type", "", Value::Null, json!(code), l);
        }
        if matches!(spec.kind, Kind::Avc | Kind::Hevc | Kind::Vp9) {
            let (w, hgt) = (guard(|| t.width()), guard(|| t.height()));
            if w != Ok(spec.width) || hgt != Ok(spec.height) {
                fail("width_height", spec.kind.name(), json!([format!("{:?}", w), format!("{:?}", hgt)]), json!([spec.width, spec.height]), l);
            }
        }
        if t.language() != spec.language {
            fail("language", "", json!(t.language()), json!(spec.language), l);
        }
        if t.timescale() != spec.timescale {
            fail("track_timescale", "", json!(t.timescale()), json!(spec.timescale), l);
        }
        match spec.kind {
            Kind::Avc => {
                let sps = guard(|| t.sequence_parameter_set().map(|b| b.to_vec()).map_err(|e| e.to_string()));
                if sps != Ok(Ok(spec.sps.clone())) {
                    fail("avc_sps", "", json!(format!("{:?}", sps.map(|r| r.map(|b| b.len())))), json!(spec.sps.len()), l);
                }
                let pps = guard(|| t.picture_parameter_set().map(|b| b.to_vec()).map_err(|e| e.to_string()));
                if pps != Ok(Ok(spec.pps.clone())) {
                    fail("avc_pps", "", json!(format!("{:?}", pps.map(|r| r.map(|b| b.len())))), json!(spec.pps.len()), l);
                }
                let avcc = &t.trak.mdia.minf.stbl.stsd.avc1.as_ref().map(|a| (a.avcc.avc_profile_indication, a.avcc.profile_compatibility, a.avcc.avc_level_indication));
                if *avcc != Some((spec.sps[1], spec.sps[2], spec.sps[3])) {
                    fail("avc_profile_level_bytes", "", json!(avcc), json!([spec.sps[1], spec.sps[2], spec.sps[3]]), l);
                }
                let prof = guard(|| t.video_profile().map(|p| p.to_string()).ok());
                let exp = ref_profile(spec.sps[1], spec.sps[2]).map(|s| s.to_string());
                if prof != Ok(exp.clone()) {
                    fail("avc_profile", "", json!(format!("{:?}", prof)), json!(exp), l);
                }
            }
            Kind::Aac => {
                let ap = guard(|| t.audio_profile().map(|p| p as u8).map_err(|e| e.to_string()));
                if ap != Ok(Ok(spec.aac.0)) {
                    let tag = if spec.aac.0 >= 32 { "aac_object_type_ge_32" } else { "" };
                    fail("aac_object_type", tag, json!(format!("{:?}", ap)), json!(spec.aac.0), l);
                }
                let fi = guard(|| t.sample_freq_index().map(|p| p as u8).map_err(|e| e.to_string()));
                if fi != Ok(Ok(spec.aac.1)) {
                    let tag = if spec.aac.0 >= 32 { "aac_object_type_ge_32" } else { "" };
                    fail("aac_freq_index", tag, json!(format!("{:?}", fi)), json!(spec.aac.1), l);
                }
                let cc = guard(|| t.channel_config().map(|p| p as u8).map_err(|e| e.to_string()));
                if cc != Ok(Ok(spec.aac.2)) {
                    let tag = if spec.aac.0 >= 32 { "aac_object_type_ge_32" } else { "" };
                    fail("aac_channel_config", tag, json!(format!("{:?}", cc)), json!(spec.aac.2), l);
                }
                if guard(|| t.bitrate()) != Ok(spec.aac.3) {
                    fail("aac_bitrate", "", json!(format!("{:?}", guard(|| t.bitrate()))), json!(spec.aac.3), l);
                }
            }
            _ => {}
        }
        // durations
        let sum: u64 = h.iter().filter(|o| o.track == id).map(|o| o.dur as u64).sum();
        let true_s = sum as f64 / spec.timescale as f64;
        if true_s > longest_s {
            longest_s = true_s;
        }
        match guard(|| t.duration()) {
            Ok(d) => {
                // reported unit: microseconds; one tick of rounding = max(1 us, one track tick)
                // + 8 ulps of the magnitude: the comparison itself is done in f64
                let tol = (1.0f64 / spec.timescale as f64).max(1e-6) + 1e-6 + true_s.abs() * 8.0 * f64::EPSILON;
                if (d.as_secs_f64() - true_s).abs() > tol {
                    fail("track_duration", "", json!(d.as_secs_f64()), json!(true_s), l);
                }
            }
            Err(p) => fail("track_duration", "", json!(p), json!(true_s), l),
        }
    }
    match guard(|| r.duration()) {
        Ok(d) => {
            // reported unit: milliseconds; rounding: one movie tick, then one millisecond
            let tol = 1.0f64 / movie.timescale as f64 + 1e-3 + 1e-9 + longest_s.abs() * 8.0 * f64::EPSILON;
            if (d.as_secs_f64() - longest_s).abs() > tol {
                fail("movie_duration", if h.len() > 2 { "more_than_two_samples" } else { "" }, json!(d.as_secs_f64()), json!({"longest_track_s": longest_s, "tolerance_s": tol}), l);
            }
        }
        Err(p) => fail("movie_duration", "", json!(p), json!(longest_s), l),
    }
    if l.violations.len() == before {
        l.outcome(&format!("ok:{}", what));
        l.nontrivial += 1;
    } else {
        l.outcome("VIOLATION");
    }
}

fn merge(a: &mut Local, b: Local) {
    a.evaluations += b.evaluations;
    a.transitions += b.transitions;
    a.validated += b.validated;
    a.nontrivial += b.nontrivial;
    for (k, v) in b.outcomes {
        *a.outcomes.entry(k).or_insert(0) += v;
    }
    a.violations.merge(b.violations);
}

fn sweep<T: Sync + Send>(items: Vec<T>, l: &mut Local, f: impl Fn(&T, &mut Local) + Sync) {
    let r = items
        .par_iter()
        .fold(Local::default, |mut l, it| {
            f(it, &mut l);
            l
        })
        .reduce(Local::default, |mut a, b| {
            merge(&mut a, b);
            a
        });
    merge(l, r);
}

pub fn run(tier: Tier, seed: u64) -> i32 {
    let mut ev = Evidence::new("C14", tier, seed, "model_checking");
    let rep = Reporter::new("C14");
    let th = tier == Tier::Thorough;
    let mut l = Local::default();
    let mut enumerations = vec![];

    // AAC: 42 object types x 13 frequency indices x 7 channel configurations x 4 bitrates
    let aots: Vec<u8> = (0..=255u8).filter(|v| AudioObjectType::try_from(*v).is_ok()).collect();
    let mut aac = vec![];
    for &a in aots.iter() {
        for f in 0..=12u8 {
            for c in 1..=7u8 {
                for br in [0u32, 1, 128_000, u32::MAX] {
                    aac.push((a, f, c, br));
                }
            }
        }
    }
    enumerations.push(json!({"name": "aac", "configs": aac.len(), "histories_each": 2}));
    sweep(aac, &mut l, |&(a, f, c, br), l| {
        let mut t = TrackSpec::new(Kind::Aac, 44100);
        t.aac = (a, f, c, br);
        let m = MovieSpec::new(1000, vec![t]);
        for h in two_histories(44100) {
            judge(seed, &m, &h, "aac", l);
        }
    });

    // durations exactly at and around 2^32-1 movie ticks (the all-ones value of the 32-bit header field), reached with
    // equal timescales and purely through timescale conversion; every kind
    {
        let mut cases = vec![];
        for k in ALL_KINDS {
            for (mts, tts) in [(1000u32, 1000u32), (90000, 30000), (24000, 48000), (1, 1)] {
                for d in [-2i64, -1, 0, 1] {
                    let target = ((1u64 << 32) as i64 + d) as u128; // movie ticks
                    let media = target * tts as u128 / mts as u128;
                    if media * mts as u128 / tts as u128 != target || media == 0 {
                        continue;
                    }
                    cases.push((k, mts, tts, media as u64));
                }
            }
        }
        enumerations.push(json!({"name": "durations_around_2^32-1_movie_ticks", "configs": cases.len(), "histories_each": 1}));
        sweep(cases, &mut l, |&(k, mts, tts, media), l| {
            let parts = (media / (u32::MAX as u64) + 2) as usize;
            let mut h = vec![];
            let mut left = media;
            for i in 0..parts {
                let part = if i + 1 == parts { left } else { left / (parts - i) as u64 };
                h.push(Op { track: 1, size: 1 + (i as u32 % 2), dur: part as u32, off: 0, sync: i == 0 });
                left -= part;
            }
            let m = MovieSpec::new(mts, vec![TrackSpec::new(k, tts)]);
            judge(seed, &m, &h, "durations_around_2^32-1_movie_ticks", l);
        });
    }

    // long durations: the converted duration just above 2^k (k = 31..63) for timescale pairs far from 1:1 — the
    // duration accessors must stay within one tick / one microsecond / one millisecond of the true value
    {
        let cases: Vec<crate::props::c13::BigCase> = crate::props::c13::cases(Tier::Quick).into_iter().filter(|c| c.name.starts_with("converted_duration_just_above")).collect();
        enumerations.push(json!({"name": "converted_durations_just_above_2^k", "configs": cases.len(), "histories_each": 1}));
        sweep(cases, &mut l, |c, l| {
            let m = MovieSpec::new(c.movie_ts, vec![TrackSpec::new(c.tracks[0].0, c.tracks[0].1)]);
            let h: Vec<Op> = c.samples.iter().map(|s| Op { track: s.0, size: s.1 as u32, dur: s.2, off: s.3, sync: s.4 }).collect();
            judge(seed, &m, &h, "converted_durations_just_above_2^k", l);
        });
    }

    // language: all 26^3 lower-case codes
    let mut langs = vec![];
    for a in b'a'..=b'z' {
        for b in b'a'..=b'z' {
            for c in b'a'..=b'z' {
                langs.push(String::from_utf8(vec![a, b, c]).unwrap());
            }
        }
    }
    enumerations.push(json!({"name": "language", "configs": langs.len(), "histories_each": 2}));
    sweep(langs, &mut l, |lang, l| {
        for k in [Kind::Avc, Kind::Aac] {
            let mut t = TrackSpec::new(k, 1000);
            t.language = lang.clone();
            let m = MovieSpec::new(1000, vec![t]);
            judge(seed, &m, &two_histories(1000)[1], "language", l);
        }
    });

    // width / height: all 2^16 each, plus 5x5 boundary pairs, for the three video kinds
    let mut dims: Vec<(Kind, u16, u16)> = vec![];
    for k in [Kind::Avc, Kind::Hevc, Kind::Vp9] {
        for w in 0..=u16::MAX {
            dims.push((k, w, 240));
            dims.push((k, 320, w));
        }
        for w in [0u16, 1, 255, 256, u16::MAX] {
            for h in [0u16, 1, 255, 256, u16::MAX] {
                dims.push((k, w, h));
            }
        }
    }
    enumerations.push(json!({"name": "width_height", "configs": dims.len(), "histories_each": 1}));
    sweep(dims, &mut l, |&(k, w, h), l| {
        let mut t = TrackSpec::new(k, 1000);
        t.width = w;
        t.height = h;
        let m = MovieSpec::new(1000, vec![t]);
        judge(seed, &m, &two_histories(1000)[1], "width_height", l);
    });

    // SPS bytes 1..3: one-hot 256 each (quick) / all 2^24 (thorough)
    let mut sps: Vec<[u8; 3]> = vec![];
    if true {
        for x in 0..(1u32 << 24) {
            sps.push([(x >> 16) as u8, (x >> 8) as u8, x as u8]);
        }
    } else {
        for v in 0..=255u8 {
            sps.push([v, 0xc0, 0x1e]);
            sps.push([66, v, 0x1e]);
            sps.push([66, 0xc0, v]);
            sps.push([77, v, v]);
            sps.push([100, v, 0]);
            sps.push([88, 0, v]);
        }
    }
    enumerations.push(json!({"name": "sps_profile_compat_level", "configs": sps.len(), "histories_each": 1}));
    sweep(sps, &mut l, |b, l| {
        let mut t = TrackSpec::new(Kind::Avc, 1000);
        t.sps = vec![0x67, b[0], b[1], b[2], 0xd9];
        let m = MovieSpec::new(1000, vec![t]);
        judge(seed, &m, &[], "sps_bytes", l);
    });

    // SPS / PPS leading bytes: every 4-byte prefix over {00, 01, 67, ff} (start-code look-alikes, all-zero, all-ones),
    // on the SPS, on the PPS and on both, bare (length 4) and followed by a tail; and every first byte 0..255
    let mut prefixes: Vec<(Vec<u8>, u8)> = vec![];
    for code in 0..256usize {
        let p: Vec<u8> = (0..4).map(|i| [0u8, 1, 0x67, 0xff][(code >> (2 * i)) & 3]).collect();
        for place in 0..3u8 {
            prefixes.push((p.clone(), place));
            let mut q = p.clone();
            q.extend([0x67, 100, 0, 40, 0xd9]);
            prefixes.push((q, place));
        }
    }
    for b0 in 0..=255u8 {
        for place in 0..2u8 {
            prefixes.push((vec![b0, 66, 0xc0, 30, 0xd9, 0], place));
        }
    }
    enumerations.push(json!({"name": "sps_pps_leading_bytes", "configs": prefixes.len(), "histories_each": 1}));
    sweep(prefixes, &mut l, |(p, place), l| {
        let mut t = TrackSpec::new(Kind::Avc, 1000);
        if *place == 0 || *place == 2 {
            t.sps = p.clone();
        }
        if *place == 1 || *place == 2 {
            t.pps = p.clone();
        }
        let m = MovieSpec::new(1000, vec![t]);
        judge(seed, &m, &two_histories(1000)[1], "sps_pps_leading_bytes", l);
    });

    // SPS / PPS lengths
    let mut lens = vec![];
    for sl in [4usize, 5, 255, 256, 65535, 65536, 70000] {
        for pl in [4usize, 5, 255, 256, 65535, 65536, 70000] {
            lens.push((sl, pl));
        }
    }
    enumerations.push(json!({"name": "sps_pps_lengths", "configs": lens.len(), "histories_each": 23}));
    sweep(lens, &mut l, |&(sl, pl), l| {
        let mut t = TrackSpec::new(Kind::Avc, 1000);
        t.sps = (0..sl).map(|i| if i == 0 { 0x67 } else if i == 1 { 66 } else { (i * 7 + 1) as u8 }).collect();
        t.pps = (0..pl).map(|i| (i * 13 + 5) as u8).collect();
        let m = MovieSpec::new(1000, vec![t]);
        for h in small_histories(1000) {
            judge(seed, &m, &h, "sps_pps_lengths", l);
        }
    });

    // refused configurations before / between / after accepted ones: the accepted tracks keep ids 1..n in the order added
    {
        let mut bad_avc = TrackSpec::new(Kind::Avc, 2000);
        bad_avc.sps = vec![0x67, 0x42];
        let bad_ts = TrackSpec::new(Kind::Aac, 0);
        let mut good: Vec<TrackSpec> = ALL_KINDS.iter().enumerate().map(|(i, k)| TrackSpec::new(*k, 1000 + i as u32)).collect();
        good[1].language = "fra".into();
        let mut lists: Vec<Vec<TrackSpec>> = vec![];
        for bad in [&bad_avc, &bad_ts] {
            for a in good.iter() {
                lists.push(vec![bad.clone(), a.clone()]);
                lists.push(vec![a.clone(), bad.clone()]);
                for b in good.iter() {
                    lists.push(vec![a.clone(), bad.clone(), b.clone()]);
                    lists.push(vec![bad.clone(), a.clone(), b.clone()]);
                }
            }
        }
        lists.push(vec![bad_avc.clone(), bad_ts.clone(), good[0].clone()]);
        lists.push(vec![bad_avc.clone()]);
        enumerations.push(json!({"name": "refused_tracks_among_accepted", "configs": lists.len(), "histories_each": 2}));
        sweep(lists, &mut l, |tracks, l| {
            let m = MovieSpec::new(1000, tracks.clone());
            let accepted = tracks.iter().filter(|t| !t.model_may_refuse()).count() as u32;
            let mut hs: Vec<Vec<Op>> = vec![vec![]];
            if accepted >= 1 {
                hs.push((1..=accepted).flat_map(|t| vec![Op { track: t, size: 2, dur: 600, off: 0, sync: true }, Op { track: t, size: 1, dur: 300, off: 0, sync: true }]).collect());
            }
            for h in hs {
                judge(seed, &m, &h, "refused_tracks_among_accepted", l);
            }
        });
    }

    // brands, minor version, timescales
    let bvals: [[u8; 4]; 4] = [*b"isom", *b"mp41", [0x80, 0xff, 0xa9, 0xfe], [0, 0, 0, 0]];
    let mut brand_cfgs = vec![];
    for major in bvals {
        for n in 0..=3usize {
            let total = 4usize.pow(n as u32);
            for idx in 0..total {
                let mut c = vec![];
                let mut i = idx;
                for _ in 0..n {
                    c.push(bvals[i % 4]);
                    i /= 4;
                }
                for minor in [0u32, 512, u32::MAX] {
                    brand_cfgs.push((major, c.clone(), minor));
                }
            }
        }
    }
    enumerations.push(json!({"name": "brands_minor", "configs": brand_cfgs.len(), "histories_each": 2}));
    sweep(brand_cfgs, &mut l, |(major, compat, minor), l| {
        let mut m = MovieSpec::new(1000, vec![TrackSpec::new(Kind::Avc, 1000)]);
        m.major = *major;
        m.compat = compat.clone();
        m.minor = *minor;
        for h in two_histories(1000) {
            judge(seed, &m, &h, "brands", l);
        }
    });
    let mut ts = vec![];
    for t in [1u32, 2, 1000, 44100, 48000, 90000, u32::MAX] {
        for mv in [1u32, 2, 600, 1000, 90000, u32::MAX] {
            for k in ALL_KINDS {
                ts.push((t, mv, k));
            }
        }
    }
    enumerations.push(json!({"name": "timescales", "configs": ts.len(), "histories_each": 23}));
    sweep(ts, &mut l, |&(t, mv, k), l| {
        let m = MovieSpec::new(mv, vec![TrackSpec::new(k, t)]);
        for h in small_histories(t) {
            judge(seed, &m, &h, "timescales", l);
        }
    });

    // track kind x media kind: TrackConfig.track_type is independent of media_conf
    let mut tk = vec![];
    for tt in [TrackType::Video, TrackType::Audio, TrackType::Subtitle] {
        for k in ALL_KINDS {
            tk.push((tt, k));
        }
    }
    enumerations.push(json!({"name": "track_type_x_media", "configs": tk.len(), "histories_each": 23}));
    sweep(tk, &mut l, |&(tt, k), l| {
        let mut t = TrackSpec::new(k, 1000);
        t.track_type = Some(tt);
        let m = MovieSpec::new(1000, vec![t]);
        for h in small_histories(1000) {
            judge(seed, &m, &h, "track_type_x_media", l);
        }
    });

    // two tracks of different kinds with different configurations (cross-talk between tracks)
    let mut pairs = vec![];
    for k1 in ALL_KINDS {
        for k2 in ALL_KINDS {
            pairs.push((k1, k2));
        }
    }
    enumerations.push(json!({"name": "two_tracks", "configs": pairs.len(), "histories_each": 1}));
    sweep(pairs, &mut l, |&(k1, k2), l| {
        let mut a = TrackSpec::new(k1, 1000);
        a.language = "eng".into();
        a.width = 640;
        a.height = 360;
        a.aac = (2, 4, 1, 64000);
        let mut b = TrackSpec::new(k2, 48000);
        b.language = "fra".into();
        b.width = 1920;
        b.height = 1080;
        b.aac = (5, 3, 6, 256000);
        b.sps = vec![0x67, 100, 0, 40, 1, 2, 3];
        let m = MovieSpec::new(600, vec![a, b]);
        let h = vec![
            Op { track: 1, size: 2, dur: 400, off: 0, sync: true },
            Op { track: 2, size: 3, dur: 30000, off: 0, sync: true },
            Op { track: 1, size: 1, dur: 700, off: 0, sync: false },
        ];
        judge(seed, &m, &h, "two_tracks", l);
    });

    ev.set("evaluations", json!(l.evaluations));
    ev.set("states", json!(l.evaluations));
    ev.set("transitions", json!(l.transitions));
    ev.set("traces_validated_against_impl", json!(l.validated));
    ev.set("distinct_nontrivial", json!(l.nontrivial));
    ev.set("rule", json!("one case = one (Mp4Config, TrackConfig(s), history) triple muxed by the real writer and reopened by the real reader; configurations come from complete loops over each field's domain (distinct by construction); counted non-trivial when every accessor of the statement was compared and agreed"));
    ev.set("enumerations", Value::Array(enumerations));
    ev.set("exhaustive", json!(true));
    ev.set("outcome_classes", Value::Object(l.outcomes.iter().map(|(k, v)| (k.clone(), json!(v))).collect()));
    ev.set("bound", json!("complete: 42x13x7 AAC parameter triples x 4 bitrates, 26^3 languages, every u16 width and every u16 height (one-dimensional sweeps + 5x5 boundary pairs) for AVC/HEVC/VP9, SPS bytes 1..3 one-hot (quick) or all 2^24 (thorough), 5x5 SPS/PPS lengths, brand lists of length 0..3 over 4 values x 3 minor versions, 7x6 timescale grid x 5 kinds, 3x5 track-type x media pairs, 5x5 two-track pairs; histories: 23 per configuration on the small enumerations (all <= 2 over 4 ops, + one 9-sample history), 1-2 on the large sweeps"));
    ev.set("samples", json!([
        {"enumeration": "aac", "config": {"object_type": 2, "freq_index": 3, "chan": 2, "bitrate": 128000}, "history": "2 samples"},
        {"enumeration": "width_height", "config": {"kind": "hevc", "width": 65535, "height": 240}},
        {"enumeration": "sps_bytes", "config": {"sps": "6742c01ed9"}, "expect": "Constrained Baseline, level 0x1e"}
    ]));
    ev.assume("durations: reported movie duration (ms) within one movie tick + 1 ms of the longest track's summed durations; track duration (us) within one track tick");
    let v = std::mem::take(&mut l.violations);
    v.drain_into(&rep);
    conclude(&ev, &rep)
}
