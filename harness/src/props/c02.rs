//! C02 — muxer output is a structurally valid, self-consistent ISO-BMFF file.
//! Same history space as C01, judged by the independent parser/validator of `refmp4`.

use crate::common::*;
use crate::hist::*;
use crate::mux::*;
use crate::refmp4::validate::check_muxer_output;
use serde_json::json;
use std::time::Duration;

pub fn run(tier: Tier, seed: u64) -> i32 {
    let mut ev = Evidence::new("C02", tier, seed, "model_checking");
    let rep = Reporter::new("C02");
    let fams = crate::props::c01::families(tier);
    let cap = Duration::from_secs(if tier == Tier::Quick { 50 } else { 3000 });
    let s = explore(&fams, cap, &rep, |fam, h, dup, l| {
        let n = fam.movie.tracks.len();
        l.transitions += (2 + n + h.len()) as u64;
        let case = || json!({"family": fam.name, "config": fam.movie.to_json(), "history": hist_json(h), "seed": seed});
        let out = match mux(seed, &fam.movie, h) {
            Ok(o) => o,
            Err(e) => {
                l.outcome("mux:panic");
                l.violations.push(Violation::new("C02", "muxer_call_panicked", case()).obs(json!(e)));
                return;
            }
        };
        let added: Vec<usize> = accepted_tracks(&out.calls, n);
        let model = reference(seed, added.len(), &accepted_ops(&out.calls, n, h));
        l.validated += 1;
        match check_muxer_output(&out.bytes, &model, &fam.movie, &added) {
            None => {
                let samples: usize = model.iter().map(|t| t.len()).sum();
                l.outcome(&format!("valid:tracks={},samples={}", n, samples.min(7)));
                if !dup && samples >= 2 {
                    l.nontrivial += 1;
                }
            }
            Some((clause, detail)) => {
                l.outcome("INVALID");
                let mut v = Violation::new("C02", &clause, case()).obs(detail);
                if model.iter().any(|t| t.len() > 2) {
                    v = v.tag("more_than_two_samples_on_a_track");
                }
                l.violations.push(v);
            }
        }
    });
    // two histories whose media data passes 4 GiB (sparse stream), judged by the same validator
    {
        use rayon::prelude::*;
        // ... and the histories whose durations, converted into the movie timescale, land just above 2^k (k = 31..63)
        let volume: Vec<crate::props::c13::BigCase> = crate::props::c13::cases(Tier::Quick).into_iter().filter(|c| (c.heavy && (c.name.starts_with("mdat_size=2^32+1") || c.name.starts_with("two_tracks_second_crosses"))) || c.name.starts_with("converted_duration_just_above")).collect();
        let parts: Vec<Local> = volume
            .par_iter()
            .map(|c| {
                let mut l = Local::default();
                crate::props::c13::judge_as("C02", c, &mut l);
                l
            })
            .collect();
        let mut agreed = 0;
        for mut p in parts {
            agreed += p.nontrivial;
            std::mem::take(&mut p.violations).drain_into(&rep);
        }
        ev.set("volume_histories", json!({"cases": volume.iter().map(|c| c.name.clone()).collect::<Vec<_>>(), "agreed": agreed}));
    }
    // the configuration grid (brands, kinds, languages, every AAC object type, parameter-set lengths) under the same oracle
    let grid = config_grid();
    let ngrid = grid.len();
    let gl = {
        use rayon::prelude::*;
        grid.par_iter()
            .map(|m| {
                let mut l = Local::default();
                for h in grid_histories(m) {
                    l.evaluations += 1;
                    let n = m.tracks.len();
                    let case = || json!({"family": "config_grid", "config": m.to_json(), "history": hist_json(&h), "seed": seed});
                    match mux(seed, m, &h) {
                        Err(e) => l.violations.push(Violation::new("C02", "muxer_call_panicked", case()).obs(json!(e))),
                        Ok(out) => {
                            let added = accepted_tracks(&out.calls, n);
                            let model = reference(seed, added.len(), &accepted_ops(&out.calls, n, &h));
                            match check_muxer_output(&out.bytes, &model, m, &added) {
                                None => l.nontrivial += 1,
                                Some((clause, detail)) => l.violations.push(Violation::new("C02", &clause, case()).obs(detail)),
                            }
                        }
                    }
                }
                l
            })
            .reduce(Local::default, |mut a, b| {
                a.evaluations += b.evaluations;
                a.nontrivial += b.nontrivial;
                a.violations.merge(b.violations);
                a
            })
    };
    ev.set("config_grid", json!({"configs": ngrid, "cases": gl.evaluations, "valid": gl.nontrivial, "what": "mux::config_grid x 2-3 histories, each output validated by the independent parser"}));
    let mut gl = gl;
    std::mem::take(&mut gl.violations).drain_into(&rep);
    standard_evidence(
        &mut ev,
        &s,
        "one case = one (configuration, history) muxed by the real Mp4Writer; the output bytes are parsed by the harness' own strict ISO-BMFF parser (no library code) and every clause of the statement is recomputed from the bytes and from the history; non-trivial = not contained in an earlier family and >= 2 samples written",
    );
    ev.set("bound", json!("identical to C01: all histories of length <= max_len over each family's alphabet"));
    ev.set("oracle", json!("top-level tiling, ftyp first, one moov, one mdat; containers = header + children recursively; stsz/stts/ctts/stsc totals and per-sample values = history; stss strictly increasing, in range, = sync samples; every chunk inside the mdat payload; chunks pairwise disjoint; mdhd.duration = sum; |tkhd - sum*M/T| <= 1; |mvhd - longest| <= 1"));
    ev.assume("the independent parser/validator (refmp4::parse, refmp4::validate) is hand-written from ISO/IEC 14496-12");
    conclude(&ev, &rep)
}
