//! C01 — muxed samples read back exactly (E1: all histories up to a depth, reference model = list of samples).

use crate::common::*;
use crate::hist::*;
use crate::mux::*;
use serde_json::json;
use std::time::Duration;

pub fn ops_product(track: u32, sizes: &[u32], durs: &[u32], offs: &[i32], syncs: &[bool]) -> Vec<Op> {
    let mut v = vec![];
    for &sync in syncs {
        for &off in offs {
            for &dur in durs {
                for &size in sizes {
                    v.push(Op { track, size, dur, off, sync });
                }
            }
        }
    }
    v
}

pub fn rejected_ops(n: u32, which: &[u32]) -> Vec<Op> {
    let _ = n;
    which.iter().map(|&t| Op { track: t, size: 1, dur: 500, off: 0, sync: true }).collect()
}

/// The family list of DESIGN §3 C01.  Shared by C02 (same space, other oracle).
pub fn families(tier: Tier) -> Vec<Family> {
    let th = tier == Tier::Thorough;
    let mut fams = vec![];
    let t1 = 1000u32; // video timescale T; h = 500
    let t2 = 48000u32;
    let two = MovieSpec::new(1000, vec![TrackSpec::new(Kind::Avc, t1), TrackSpec::new(Kind::Aac, t2)]);

    // (a) complete product alphabet, 2 tracks + 3 rejected
    let mut a = vec![];
    a.extend(ops_product(1, &[1, 0, 2], &[500, 0, 1000, 1001], &[0, 7, -7], &[true, false]));
    a.extend(ops_product(2, &[1, 0, 2], &[24000, 0, 48000, 48001], &[0, 7, -7], &[true, false]));
    a.extend(rejected_ops(2, &[0, 3, u32::MAX]));
    fams.push(Family { name: "a:product".into(), movie: two.clone(), alphabet: a, max_len: if th { 4 } else { 3 }, filter: None });

    // (b) chunking x sizes
    let mut b = vec![];
    b.extend(ops_product(1, &[1, 0, 2], &[500, 0, 1000], &[0], &[true]));
    b.extend(ops_product(2, &[1, 0, 2], &[24000, 0, 48000], &[0], &[true]));
    b.extend(rejected_ops(2, &[0, 3]));
    fams.push(Family { name: "b:chunking_x_sizes".into(), movie: two.clone(), alphabet: b, max_len: if th { 6 } else { 5 }, filter: None });

    // (c) ctts x stss, one track
    let one = MovieSpec::new(1000, vec![TrackSpec::new(Kind::Avc, t1)]);
    let c = ops_product(1, &[1], &[500, 1000], &[0, 7, -7], &[true, false]);
    fams.push(Family { name: "c:ctts_x_stss".into(), movie: one.clone(), alphabet: c, max_len: if th { 7 } else { 6 }, filter: None });

    // (d) every kind alone, every ordered pair of kinds (three tracks in thorough)
    let per_track16 = |t: u32, ts: u32| ops_product(t, &[1, 0], &[ts / 2, ts], &[0, 5], &[true, false]);
    for k in ALL_KINDS {
        let m = MovieSpec::new(600, vec![TrackSpec::new(k, 1000)]);
        fams.push(Family { name: format!("d:{}", k.name()), movie: m, alphabet: per_track16(1, 1000), max_len: if th { 4 } else { 3 }, filter: None });
    }
    for k1 in ALL_KINDS {
        for k2 in ALL_KINDS {
            let m = MovieSpec::new(600, vec![TrackSpec::new(k1, 1000), TrackSpec::new(k2, 90000)]);
            let mut al = per_track16(1, 1000);
            al.extend(per_track16(2, 90000));
            fams.push(Family { name: format!("d:{}+{}", k1.name(), k2.name()), movie: m, alphabet: al, max_len: 3, filter: None });
        }
    }
    if th {
        for k3 in ALL_KINDS {
            let m = MovieSpec::new(600, vec![TrackSpec::new(Kind::Avc, 1000), TrackSpec::new(Kind::Aac, 44100), TrackSpec::new(k3, 30)]);
            let mut al = ops_product(1, &[1, 0], &[500, 1000], &[0], &[true, false]);
            al.extend(ops_product(2, &[1, 2], &[22050, 44100], &[0], &[true]));
            al.extend(ops_product(3, &[1, 0], &[15, 30], &[0, 3], &[true, false]));
            fams.push(Family { name: format!("d:avc+aac+{}", k3.name()), movie: m, alphabet: al, max_len: 4, filter: None });
        }
    }

    // (e) timescale grid
    for &t in &[1u32, 2, 1000, 48000, u32::MAX] {
        for &m in &[1u32, 1000, 90000, u32::MAX] {
            let mv = MovieSpec::new(m, vec![TrackSpec::new(Kind::Avc, t)]);
            let h = t / 2 + t % 2;
            let mut durs = vec![h, t];
            durs.dedup();
            let al = ops_product(1, &[1, 2], &durs, &[0, 1], &[true, false]);
            fams.push(Family { name: format!("e:T={},M={}", t, m), movie: mv, alphabet: al, max_len: 3, filter: None });
        }
    }

    // (f) extremes, one-hot: every position of every history <= 3 of a 4-op base alphabet gets each extreme value
    // (realised as an alphabet of 4 base ops + the extreme ops, restricted to histories with at most one extreme op)
    let mut fal = ops_product(1, &[1, 2], &[500, 1000], &[0], &[true]);
    let base = Op { track: 1, size: 1, dur: 500, off: 0, sync: true };
    for d in [1u32 << 31, u32::MAX] {
        fal.push(Op { dur: d, ..base });
    }
    for o in [i32::MIN, i32::MAX] {
        fal.push(Op { off: o, ..base });
    }
    for s in [255u32, 256, 65535, 65536, 1 << 20] {
        fal.push(Op { size: s, ..base });
    }
    fn at_most_one_extreme(h: &[Op]) -> bool {
        h.iter().filter(|o| o.dur >= 1 << 31 || o.off == i32::MIN || o.off == i32::MAX || o.size >= 255).count() <= 1
    }
    fams.push(Family { name: "f:extremes_one_hot".into(), movie: one.clone(), alphabet: fal, max_len: 3, filter: Some(at_most_one_extreme) });

    // (f2) large payloads inside a chunk that stays open while the other track's chunks are flushed: two tracks, short
    // durations on track 1 (its chunk stays open), samples of 1 byte, 64 KiB and 1 MiB, and on track 2 one short and one
    // chunk-closing duration; every history up to 5 — chunk payloads of 0..5 MiB interleaved with the other track's flushes
    let mf2 = MovieSpec::new(1000, vec![TrackSpec::new(Kind::Aac, 48000), TrackSpec::new(Kind::Aac, 1000)]);
    let mut f2al = ops_product(1, &[1, 1 << 16, 1 << 20], &[1024], &[0], &[true]);
    f2al.extend(ops_product(2, &[2], &[100, 1000], &[0], &[true]));
    fams.push(Family { name: "f2:large_payloads_in_open_chunk_two_tracks".into(), movie: mf2, alphabet: f2al, max_len: 5, filter: None });

    // (g) writes the muxer refuses on a KNOWN track: with track timescale 1 and movie timescale 2^32-1 the track duration
    // in movie units leaves 64 bits after two maximal durations; refused and accepted writes interleave on two tracks
    let mg = MovieSpec::new(u32::MAX, vec![TrackSpec::new(Kind::Avc, 1), TrackSpec::new(Kind::Aac, 48000)]);
    let mut gal = ops_product(1, &[1, 2], &[u32::MAX, 3, 1], &[0, 4], &[true, false]);
    gal.extend(ops_product(2, &[1], &[24000], &[0], &[true]));
    gal.extend(rejected_ops(2, &[3]));
    fams.push(Family { name: "g:refused_on_known_track(T=1,M=2^32-1)".into(), movie: mg, alphabet: gal, max_len: if th { 4 } else { 3 }, filter: None });

    // (h) add_track calls the muxer refuses, before / between / after accepted ones: every sequence of 1..3 track
    // configurations over {AVC, AAC, AVC with a 1-byte SPS (refused), text track with timescale 0 (refused)}
    let mut bad_avc = TrackSpec::new(Kind::Avc, 2000);
    bad_avc.sps = vec![0x67];
    let specs = [TrackSpec::new(Kind::Avc, 1000), TrackSpec::new(Kind::Aac, 48000), bad_avc, TrackSpec::new(Kind::Ttxt, 0)];
    for len in 1..=3usize {
        for code in 0..4usize.pow(len as u32) {
            let idx: Vec<usize> = (0..len).map(|i| (code / 4usize.pow(i as u32)) % 4).collect();
            if idx.iter().all(|&i| i < 2) {
                continue; // no refused track: covered by the other families
            }
            let tracks: Vec<TrackSpec> = idx.iter().map(|&i| specs[i].clone()).collect();
            let mut al = vec![];
            for t in 1..=3u32 {
                al.push(Op { track: t, size: 1 + t, dur: 500, off: 0, sync: true });
            }
            al.push(Op { track: 1, size: 2, dur: 250, off: 3, sync: false });
            fams.push(Family { name: format!("h:refused_add_track:{}", idx.iter().map(|&i| ["avc", "aac", "AVC-short-sps", "TTXT-timescale-0"][i]).collect::<Vec<_>>().join("+")), movie: MovieSpec::new(1000, tracks), alphabet: al, max_len: 3, filter: None });
        }
    }
    fams
}

/// C01 oracle on one history.  Returns the muxer output for oracles layered on top (C02).
pub fn judge(prop: &str, seed: u64, fam: &Family, h: &[Op], dup: bool, l: &mut Local) -> Option<Vec<u8>> {
    let nspecs = fam.movie.tracks.len();
    let case = || json!({"family": fam.name, "config": fam.movie.to_json(), "history": hist_json(h), "seed": seed});
    l.transitions += (2 + nspecs + h.len()) as u64;
    let out = match mux(seed, &fam.movie, h) {
        Ok(o) => o,
        Err(e) => {
            l.outcome("mux:panic_or_start_error");
            l.violations.push(Violation::new(prop, "muxer_call_panicked", case()).obs(json!(e)));
            return None;
        }
    };
    // the tracks of the movie are the add_track calls the muxer accepted, numbered 1..n in that order
    let acc_tracks = accepted_tracks(&out.calls, nspecs);
    let n = acc_tracks.len();
    let accepted_movie = MovieSpec { tracks: acc_tracks.iter().map(|&i| fam.movie.tracks[i].clone()).collect(), ..fam.movie.clone() };
    // the reference model holds the samples of the calls the muxer accepted
    let accepted = accepted_ops(&out.calls, nspecs, h);
    let expect = reference(seed, n, &accepted);
    let written: usize = expect.iter().map(|t| t.len()).sum();
    let has_rejected = accepted.len() != h.len() || n != nspecs;
    let mut tags: Vec<&str> = vec![];
    if expect.iter().any(|t| !t.is_empty() && t.iter().all(|s| !s.sync)) {
        tags.push("track_without_sync_sample");
    }
    if expect.iter().any(|t| t.iter().any(|s| s.bytes.is_empty())) {
        tags.push("has_empty_sample");
    }
    let mk = |clause: &str| {
        let mut v = Violation::new(prop, clause, case());
        for t in tags.iter() {
            v = v.tag(t);
        }
        v
    };
    // call results: an unknown track id must be refused; a write to a known track may only be refused when the
    // track duration would stop being representable (statement-level model), every other call must succeed
    let mut acc_so_far: Vec<Op> = vec![];
    for (i, r) in out.calls.iter().enumerate() {
        let is_sample = i > nspecs && i <= nspecs + h.len();
        let is_add = i >= 1 && i <= nspecs;
        let (must_fail, may_fail) = if is_sample {
            let o = h[i - nspecs - 1];
            if o.track == 0 || o.track as usize > n {
                (true, true)
            } else {
                (false, model_may_reject(&accepted_movie, &acc_so_far, &o))
            }
        } else if is_add {
            (false, fam.movie.tracks[i - 1].model_may_refuse())
        } else {
            (false, false)
        };
        if (r.is_ok() && must_fail) || (r.is_err() && !may_fail) {
            l.outcome("mux:unexpected_call_result");
            l.violations.push(mk("call_result").obs(json!({"call_index": i, "result": format!("{:?}", r)})).exp(json!(if must_fail { "Err" } else { "Ok" })));
            return None;
        }
        if is_sample && r.is_ok() {
            acc_so_far.push(h[i - nspecs - 1]);
        }
    }
    // rejected calls leave no trace (differential): the same output as muxing only the accepted calls
    if has_rejected {
        let filtered: Vec<Op> = accepted.clone();
        match mux(seed, &accepted_movie, &filtered) {
            Ok(o2) if o2.bytes == out.bytes => l.outcome("rejected:no_trace"),
            Ok(_) => {
                l.outcome("rejected:TRACE");
                l.violations.push(mk("rejected_call_left_trace"));
            }
            Err(e) => l.violations.push(mk("muxer_call_panicked").obs(json!(e))),
        }
    }
    // read back
    let mut r = match open(&out.bytes) {
        Ok(r) => r,
        Err(e) => {
            l.outcome("open:failed");
            l.violations.push(mk("open_failed").obs(json!(e)));
            return Some(out.bytes);
        }
    };
    l.validated += 1;
    let ids = sorted_track_ids(&r);
    let want: Vec<u32> = (1..=n as u32).collect();
    if ids != want {
        l.violations.push(mk("track_ids").obs(json!(ids)).exp(json!(want)));
        return Some(out.bytes);
    }
    let mut ok = true;
    let mut chunks_total = 0usize;
    for (ti, exp) in expect.iter().enumerate() {
        let id = ti as u32 + 1;
        let cnt = guard(|| r.sample_count(id));
        l.transitions += 1;
        match cnt {
            Ok(Ok(c)) if c as usize == exp.len() => {}
            o => {
                ok = false;
                l.violations.push(mk("sample_count").obs(json!(format!("{:?}", o.map(|r| r.map_err(|e| e.to_string()))))).exp(json!({"track": id, "count": exp.len()})));
                continue;
            }
        }
        if let Some(t) = r.tracks().get(&id) {
            let spec = &accepted_movie.tracks[ti];
            let kind_ok = match spec.kind {
                Kind::Avc => t.trak.mdia.minf.stbl.stsd.avc1.is_some(),
                Kind::Hevc => t.trak.mdia.minf.stbl.stsd.hev1.is_some(),
                Kind::Vp9 => t.trak.mdia.minf.stbl.stsd.vp09.is_some(),
                Kind::Aac => t.trak.mdia.minf.stbl.stsd.mp4a.is_some(),
                Kind::Ttxt => t.trak.mdia.minf.stbl.stsd.tx3g.is_some(),
            };
            if t.timescale() != spec.timescale || !kind_ok {
                ok = false;
                l.violations.push(mk("track_is_not_the_one_added_at_this_position").obs(json!({"track": id, "timescale": t.timescale()})).exp(spec.to_json()));
            }
            let st = &t.trak.mdia.minf.stbl;
            chunks_total += st.stco.as_ref().map(|s| s.entries.len()).unwrap_or(0) + st.co64.as_ref().map(|s| s.entries.len()).unwrap_or(0);
        }
        for (k, e) in exp.iter().enumerate() {
            let got = read_one(&mut r, id, k as u32 + 1);
            l.transitions += 1;
            if got != Got::Some(e.clone()) {
                ok = false;
                let clause = match &got {
                    Got::Some(g) if g.bytes != e.bytes => "sample_bytes",
                    Got::Some(g) if g.start != e.start => "sample_start_time",
                    Got::Some(g) if g.dur != e.dur => "sample_duration",
                    Got::Some(g) if g.off != e.off => "sample_rendering_offset",
                    Got::Some(_) => "sample_sync_flag",
                    Got::None => "sample_missing",
                    Got::Err(_) => "sample_read_error",
                    Got::Panic(_) => "sample_read_panic",
                };
                l.violations.push(mk(clause).obs(json!({"track": id, "sample": k + 1, "got": got.to_json()})).exp(ref_json(e)));
                break;
            }
        }
        let len = exp.len() as u32;
        for probe in [0u32, len + 1, len + 2, u32::MAX] {
            let got = read_one(&mut r, id, probe);
            l.transitions += 1;
            match got {
                Got::Some(_) => {
                    ok = false;
                    l.violations.push(mk("id_past_end_yields_sample").obs(json!({"track": id, "sample": probe, "got": got.to_json()})));
                }
                Got::Panic(p) => {
                    ok = false;
                    l.violations.push(mk("id_past_end_panics").obs(json!({"track": id, "sample": probe, "panic": p})));
                }
                _ => {}
            }
        }
    }
    if ok {
        l.outcome(&format!("ok:tracks={},samples={},chunks={}", n, written.min(7), chunks_total.min(7)));
    } else {
        l.outcome("VIOLATION");
    }
    // non-trivial: wrote >= 2 samples and produced >= 2 chunks, or mixed sizes / offsets / sync (table-mode switch)
    if !dup && written >= 2 {
        let mode_switch = expect.iter().any(|t| {
            t.len() >= 2
                && (t.iter().any(|s| s.bytes.len() != t[0].bytes.len()) || t.iter().any(|s| s.off != t[0].off) || t.iter().any(|s| s.sync != t[0].sync) || t.iter().any(|s| s.dur != t[0].dur))
        });
        if chunks_total >= 2 || mode_switch {
            l.nontrivial += 1;
        }
    }
    Some(out.bytes)
}

pub fn run(tier: Tier, seed: u64) -> i32 {
    let mut ev = Evidence::new("C01", tier, seed, "model_checking");
    let rep = Reporter::new("C01");
    let fams = families(tier);
    let cap = Duration::from_secs(if tier == Tier::Quick { 50 } else { 3000 });
    let s = explore(&fams, cap, &rep, |fam, h, dup, l| {
        judge("C01", seed, fam, h, dup, l);
    });
    // long periodic histories: every pattern of period 1..3 over six operations (two tracks; empty, odd and even sizes;
    // two durations; offsets; sync on/off) repeated to 33, 257 and 300 calls, and the patterns of period <= 2 to 65537
    // calls — counters that wrap at 2^8 or 2^16 entries, chunks of more than 255 samples, run tables with many runs
    {
        use rayon::prelude::*;
        let two = MovieSpec::new(1000, vec![TrackSpec::new(Kind::Avc, 1000), TrackSpec::new(Kind::Aac, 48000)]);
        let letters = [
            Op { track: 1, size: 1, dur: 500, off: 0, sync: true },
            Op { track: 1, size: 2, dur: 500, off: 0, sync: false },
            Op { track: 1, size: 0, dur: 1000, off: 7, sync: false },
            Op { track: 1, size: 1, dur: 40, off: -7, sync: true },
            Op { track: 2, size: 1, dur: 1024, off: 0, sync: true },
            Op { track: 2, size: 2, dur: 48000, off: 0, sync: true },
            // durations far below the timescale: the chunk is not closed for thousands of samples
            Op { track: 1, size: 2, dur: 0, off: 0, sync: false },
            Op { track: 2, size: 1, dur: 1, off: 0, sync: true },
        ];
        let mut items: Vec<(Vec<usize>, usize)> = vec![];
        for period in 1..=3usize {
            for code in 0..letters.len().pow(period as u32) {
                let pat: Vec<usize> = (0..period).map(|i| (code / letters.len().pow(i as u32)) % letters.len()).collect();
                for n in [33usize, 257, 300] {
                    items.push((pat.clone(), n));
                }
                if period <= 2 {
                    items.push((pat.clone(), 1100));
                }
                if period == 1 || (period == 2 && pat.iter().all(|&x| x >= 6)) {
                    items.push((pat.clone(), 65537));
                    items.push((pat.clone(), 70001));
                }
            }
        }
        let fam = Family { name: "i:long_periodic".into(), movie: two, alphabet: vec![], max_len: 0, filter: None };
        let nlong = items.len();
        let parts: Vec<Local> = items
            .par_iter()
            .map(|(pat, n)| {
                let mut l = Local::default();
                let h: Vec<Op> = (0..*n).map(|i| letters[pat[i % pat.len()]]).collect();
                l.evaluations += 1;
                judge("C01", seed, &fam, &h, false, &mut l);
                l
            })
            .collect();
        let mut ll = Local::default();
        for mut p in parts {
            ll.evaluations += p.evaluations;
            ll.nontrivial += p.nontrivial;
            ll.violations.merge(std::mem::take(&mut p.violations));
        }
        ev.set("long_periodic_histories", json!({"histories": nlong, "agreed": ll.nontrivial, "what": "584 patterns of period 1..3 over eight operations (two of them with durations far below the timescale, so that one chunk holds all samples) x lengths 33/257/300, the 72 patterns of period <= 2 also x 1100, period-1 patterns and the tiny-duration pairs x 65537 and 70001"}));
        std::mem::take(&mut ll.violations).drain_into(&rep);
    }
    // histories whose media data passes 4 GiB (sparse stream): two tracks interleaved, read back sample by sample
    let mut vl = Local::default();
    let volume: Vec<crate::props::c13::BigCase> = crate::props::c13::cases(Tier::Quick).into_iter().filter(|c| c.heavy && (c.name.starts_with("mdat_size=2^32+1") || c.name.starts_with("two_tracks_second_crosses"))).collect();
    {
        use rayon::prelude::*;
        let parts: Vec<Local> = volume
            .par_iter()
            .map(|c| {
                let mut l = Local::default();
                crate::props::c13::judge_as("C01", c, &mut l);
                l
            })
            .collect();
        for p in parts {
            vl.nontrivial += p.nontrivial;
            vl.violations.merge(p.violations);
        }
    }
    ev.set("volume_histories", json!({"cases": volume.iter().map(|c| c.name.clone()).collect::<Vec<_>>(), "what": "media data of 2^32+1 bytes on one track; two tracks where the second crosses 2^32: muxed over a sparse stream, validated and read back sample by sample", "agreed": vl.nontrivial}));
    std::mem::take(&mut vl.violations).drain_into(&rep);
    standard_evidence(
        &mut ev,
        &s,
        "one case = one (configuration, history of write_sample calls) muxed by the real Mp4Writer and read back by the real Mp4Reader; histories are enumerated by mixed-radix index (all distinct within a family); a history is counted non-trivial when it is not also contained in an earlier family, wrote >= 2 samples and either produced >= 2 chunks or mixes sizes/durations/offsets/sync flags on one track (a table-mode switch)",
    );
    ev.set("bound", json!("all histories of length <= max_len over each family's alphabet (see families); alphabets hold one value per shortcut in the muxer's table builders"));
    ev.set("oracle", json!("reference model = per-track list of written samples; read-back bytes/duration/offset/sync/start-time/count must agree, ids 0,len+1,len+2,u32::MAX never yield a sample, rejected calls return Err and leave the output byte-identical to the history without them"));
    ev.assume("the library's own reader is the decoder here (C02 judges the same outputs with an independent parser)");
    conclude(&ev, &rep)
}
