//! C09 — sample lookup in fragmented files follows movie-fragment semantics (engine E2).

use crate::common::*;
use crate::hist::Local;
use crate::mux::{read_one, Got};
use crate::refmp4::frag::*;
use crate::refmp4::movie::{Codec, LSample};
use crate::refmp4::tree::{serialize, Anchors};
use mp4::Mp4Reader;
use rayon::prelude::*;
use serde_json::{json, Value};
use std::io::Cursor;

pub fn fmovie_json(m: &LFragMovie) -> Value {
    json!({"movie_ts": m.movie_ts, "mehd": m.mehd, "large_moof": m.large_moof, "fillers": m.fillers,
        "tracks": m.tracks.iter().map(|t| json!({"id": t.id, "codec": format!("{:?}", t.codec), "timescale": t.timescale, "trex_default_duration": t.trex_default_duration})).collect::<Vec<_>>(),
        "fragments": m.fragments.iter().map(|f| f.iter().map(|r| json!({"track": r.track_id, "base": format!("{:?}", r.base), "frag_default_duration": r.frag_default_duration,
            "per_sample_durations": r.per_sample_durations, "cts_version": r.cts_version, "data_offset": r.data_offset, "data_before_moof": r.data_before_moof,
            "tfdt_version": r.tfdt_version, "base_time": r.base_time, "no_trun": r.no_trun, "samples": r.samples.iter().map(|s| json!([s.size, s.delta, s.cts])).collect::<Vec<_>>()})).collect::<Vec<_>>()).collect::<Vec<_>>()})
}

pub fn compare_pub<R: std::io::Read + std::io::Seek>(prop: &str, mode: &str, family: &str, m: &LFragMovie, r: &mut Mp4Reader<R>, exp: &[(u32, Vec<FExpect>)], anchors: &Anchors, bytes_hex: Option<String>, l: &mut Local) -> bool {
    let case = || {
        let mut c = json!({"engine": "shape_frag", "family": family, "mode": mode, "movie": fmovie_json(m)});
        if let Some(h) = &bytes_hex {
            c["input_hex"] = json!(h);
        }
        c
    };
    let last_trex = m.tracks.last().map(|t| t.trex_default_duration).unwrap_or(0);
    let mut ok = true;
    for (id, e) in exp.iter() {
        let n = e.len() as u32;
        let tr = m.tracks.iter().find(|t| t.id == *id).unwrap();
        l.transitions += 1;
        match guard(|| r.sample_count(*id)) {
            Ok(Ok(c)) if c == n => {}
            o => {
                // a track without any run is still a track of the movie: count 0
                ok = false;
                l.violations.push(Violation::new(prop, "sample_count", case()).obs(json!(format!("{:?}", o.map(|r| r.map_err(|e| e.to_string()))))).exp(json!({"track": id, "count": n})));
                continue;
            }
        }
        // which run does sample k belong to (for tagging)
        let mut run_of: Vec<&LRun> = vec![];
        for f in m.fragments.iter() {
            for run in f.iter().filter(|x| x.track_id == *id) {
                for _ in run.samples.iter() {
                    run_of.push(run);
                }
            }
        }
        let mut ids: Vec<u32> = (0..=n + 1).collect();
        ids.push(u32::MAX);
        for k in ids {
            l.transitions += 2;
            let off = guard(|| r.sample_offset(*id, k));
            if m.offsets_only {
                if k >= 1 && k <= n {
                    let x = &e[k as usize - 1];
                    let want_off = anchors[&x.anchor].1 + x.rel;
                    if !matches!(&off, Ok(Ok(o)) if *o == want_off) {
                        ok = false;
                        l.violations.push(Violation::new(prop, "sample_offset", case()).obs(json!({"track": id, "sample": k, "got": format!("{:?}", off.map(|r| r.map_err(|e| e.to_string())))})).exp(json!(want_off)));
                        break;
                    }
                }
                continue;
            }
            let got = read_one(r, *id, k);
            if k >= 1 && k <= n {
                let x = &e[k as usize - 1];
                let want_off = anchors[&x.anchor].1 + x.rel;
                let run = run_of[k as usize - 1];
                let falls_to_movie_default = !run.per_sample_durations && run.frag_default_duration.is_none();
                let mut tags: Vec<&str> = vec![];
                if falls_to_movie_default && tr.trex_default_duration != last_trex {
                    tags.push("duration_from_movie_default_and_own_trex_differs_from_last_trex");
                }
                let mk = |clause: &str| {
                    let mut v = Violation::new(prop, clause, case());
                    for t in tags.iter() {
                        v = v.tag(t);
                    }
                    v
                };
                match off {
                    Ok(Ok(o)) if o == want_off => {}
                    o => {
                        ok = false;
                        l.violations.push(mk("sample_offset").obs(json!({"track": id, "sample": k, "got": format!("{:?}", o.map(|r| r.map_err(|e| e.to_string())))})).exp(json!(want_off)));
                        break;
                    }
                }
                let clause = match &got {
                    Got::Some(g) if g.bytes != x.bytes => Some("sample_bytes"),
                    Got::Some(g) if g.dur != x.duration => Some("sample_duration"),
                    Got::Some(g) if g.start != x.start => Some("sample_start_time"),
                    Got::Some(g) if g.off != x.cts => Some("sample_composition_offset"),
                    Got::Some(_) => None,
                    Got::None => Some("sample_missing"),
                    Got::Err(_) => Some("sample_read_error"),
                    Got::Panic(_) => Some("sample_read_panic"),
                };
                if let Some(c) = clause {
                    ok = false;
                    l.violations.push(mk(c).obs(json!({"track": id, "sample": k, "got": got.to_json()})).exp(json!({"bytes": hex(&x.bytes), "start": x.start, "dur": x.duration, "off": x.cts})));
                    break;
                }
            } else {
                if let Got::Some(_) = got {
                    ok = false;
                    l.violations.push(Violation::new(prop, "id_outside_range_yields_sample", case()).obs(json!({"track": id, "sample": k, "got": got.to_json()})));
                }
                if let Got::Panic(p) = &got {
                    ok = false;
                    l.violations.push(Violation::new(prop, "id_outside_range_panics", case()).obs(json!({"track": id, "sample": k, "panic": p})));
                }
                if let Err(p) = off {
                    ok = false;
                    l.violations.push(Violation::new(prop, "id_outside_range_panics", case()).obs(json!({"track": id, "sample": k, "panic": short_loc(&p)})));
                }
            }
        }
    }
    // the same reader asked again backwards: a lookup must not depend on earlier lookups
    if ok && !m.offsets_only {
        for (id, e) in exp.iter() {
            for k in (1..=e.len() as u32).rev() {
                l.transitions += 2;
                let x = &e[k as usize - 1];
                let want_off = anchors[&x.anchor].1 + x.rel;
                let off = guard(|| r.sample_offset(*id, k));
                let got = read_one(r, *id, k);
                // durations that fall through to the movie level are judged (and tagged) in the forward pass only
                let same = matches!(&off, Ok(Ok(o)) if *o == want_off) && matches!(&got, Got::Some(g) if g.bytes == x.bytes && g.start == x.start && g.off == x.cts);
                if !same {
                    ok = false;
                    l.violations.push(Violation::new(prop, "lookup_depends_on_earlier_lookups", case()).obs(json!({"track": id, "sample": k, "offset": format!("{:?}", off.map(|r| r.map_err(|e| e.to_string()))), "got": got.to_json()})).exp(json!({"offset": want_off, "start": x.start, "off": x.cts})));
                    break;
                }
            }
        }
    }
    ok
}

/// Both delivery modes of one logical fragmented movie.
pub fn judge(prop: &str, family: &str, m: &LFragMovie, l: &mut Local) {
    let init = init_nodes(m);
    let (media, exp) = media_nodes(m);
    let total: usize = exp.iter().map(|(_, e)| e.len()).sum();
    // mode 1: one stream
    {
        let mut all = init.clone();
        all.extend(media.iter().cloned());
        let (bytes, anchors) = serialize(&all);
        l.evaluations += 1;
        let hexs = if bytes.len() <= 4096 { Some(hex(&bytes)) } else { None };
        match guard(|| Mp4Reader::read_header(Cursor::new(&bytes[..]), bytes.len() as u64)) {
            Ok(Ok(mut r)) => {
                l.validated += 1;
                if compare_pub(prop, "one_stream", family, m, &mut r, &exp, &anchors, hexs, l) {
                    l.outcome(&format!("ok:one_stream:{}", family));
                    if total >= 2 {
                        l.nontrivial += 1;
                    }
                } else {
                    l.outcome("VIOLATION");
                }
            }
            o => {
                l.outcome("open_failed");
                l.violations.push(Violation::new(prop, "consistent_file_does_not_open", json!({"engine": "shape_frag", "family": family, "mode": "one_stream", "movie": fmovie_json(m), "input_hex": hexs})).obs(json!(format!("{:?}", o.map(|r| r.map(|_| ()).map_err(|e| e.to_string()))))));
            }
        }
    }
    // mode 2: initialization segment opened first, media segment opened against it
    {
        let (ib, _) = serialize(&init);
        let (mb, anchors) = serialize(&media);
        l.evaluations += 1;
        let hexs = if ib.len() + mb.len() <= 4096 { Some(format!("{}|{}", hex(&ib), hex(&mb))) } else { None };
        let opened = guard(|| Mp4Reader::read_header(Cursor::new(&ib[..]), ib.len() as u64).and_then(|i| i.read_fragment_header(Cursor::new(&mb[..]), mb.len() as u64)));
        match opened {
            Ok(Ok(mut r)) => {
                l.validated += 1;
                if compare_pub(prop, "separate_segments", family, m, &mut r, &exp, &anchors, hexs, l) {
                    l.outcome(&format!("ok:separate:{}", family));
                    if total >= 2 {
                        l.nontrivial += 1;
                    }
                } else {
                    l.outcome("VIOLATION");
                }
            }
            o => {
                l.outcome("open_failed");
                l.violations.push(Violation::new(prop, "consistent_file_does_not_open", json!({"engine": "shape_frag", "family": family, "mode": "separate_segments", "movie": fmovie_json(m), "input_hex": hexs})).obs(json!(format!("{:?}", o.map(|r| r.map(|_| ()).map_err(|e| e.to_string()))))));
            }
        }
    }
    // mode 2b: the media segment does not begin at position 0 of its stream — another box precedes it and the reader is
    // handed over positioned behind that box (a segment inside a longer stream).  All positions stay absolute.
    {
        let mut nodes = vec![crate::refmp4::tree::Node::leaf(b"free", vec![0x5a; 32])];
        nodes.extend(media.iter().cloned());
        let (ib, _) = serialize(&init);
        let (mb, anchors) = serialize(&nodes);
        l.evaluations += 1;
        let hexs = if ib.len() + mb.len() <= 4096 { Some(format!("{}|{}", hex(&ib), hex(&mb))) } else { None };
        let opened = guard(|| {
            Mp4Reader::read_header(Cursor::new(&ib[..]), ib.len() as u64).and_then(|i| {
                let mut cur = Cursor::new(&mb[..]);
                cur.set_position(40);
                i.read_fragment_header(cur, mb.len() as u64)
            })
        });
        match opened {
            Ok(Ok(mut r)) => {
                l.validated += 1;
                if compare_pub(prop, "separate_segments_stream_not_at_zero", family, m, &mut r, &exp, &anchors, hexs, l) {
                    l.outcome(&format!("ok:separate_at_40:{}", family));
                } else {
                    l.outcome("VIOLATION");
                }
            }
            o => {
                l.outcome("open_failed");
                l.violations.push(Violation::new(prop, "consistent_file_does_not_open", json!({"engine": "shape_frag", "family": family, "mode": "separate_segments_stream_not_at_zero", "movie": fmovie_json(m), "input_hex": hexs})).obs(json!(format!("{:?}", o.map(|r| r.map(|_| ()).map_err(|e| e.to_string()))))));
            }
        }
    }
    // modes 3 and 4: the reader the segment is opened against is not a pure initialization segment — it already holds
    // the first fragment (init + first moof/mdat in one stream), or is itself a reader derived for an earlier segment.
    // The derived reader must describe exactly the segment it was opened on.
    if m.fragments.len() >= 2 && !m.offsets_only {
        let head = LFragMovie { fragments: m.fragments[..1].to_vec(), ..m.clone() };
        let tail = LFragMovie { fragments: m.fragments[1..].to_vec(), ..m.clone() };
        let (head_media, _) = media_nodes(&head);
        let (tail_media, tail_exp) = media_nodes(&tail);
        let (ib, _) = serialize(&init);
        let (hb, _) = serialize(&head_media);
        let (tb, anchors) = serialize(&tail_media);
        let mut ihb = ib.clone();
        ihb.extend_from_slice(&hb);
        for mode in ["segment_against_init_plus_first_fragment", "segment_against_reader_of_earlier_segment"] {
            l.evaluations += 1;
            let opened = guard(|| {
                if mode == "segment_against_init_plus_first_fragment" {
                    Mp4Reader::read_header(Cursor::new(&ihb[..]), ihb.len() as u64).and_then(|p| p.read_fragment_header(Cursor::new(&tb[..]), tb.len() as u64))
                } else {
                    Mp4Reader::read_header(Cursor::new(&ib[..]), ib.len() as u64)
                        .and_then(|p0| p0.read_fragment_header(Cursor::new(&hb[..]), hb.len() as u64))
                        .and_then(|p1| p1.read_fragment_header(Cursor::new(&tb[..]), tb.len() as u64))
                }
            });
            match opened {
                Ok(Ok(mut r)) => {
                    l.validated += 1;
                    if compare_pub(prop, mode, family, &tail, &mut r, &tail_exp, &anchors, None, l) {
                        l.outcome(&format!("ok:{}", mode));
                        l.nontrivial += 1;
                    } else {
                        l.outcome("VIOLATION");
                    }
                }
                o => {
                    l.outcome("open_failed");
                    l.violations.push(Violation::new(prop, "consistent_file_does_not_open", json!({"engine": "shape_frag", "family": family, "mode": mode, "movie": fmovie_json(m)})).obs(json!(format!("{:?}", o.map(|r| r.map(|_| ()).map_err(|e| e.to_string()))))));
                }
            }
        }
    }
    if l.samples.is_empty() && total == 3 {
        l.samples.push(json!({"family": family, "movie": fmovie_json(m)}));
    }
}

#[derive(Clone, Copy, Debug)]
pub struct Opt {
    pub base: Base,
    pub data_offset: bool,
    pub fdd: bool,
    pub before: bool,
    pub psd: bool,
    pub cts: Option<u8>,
    pub tfdt_v: u8,
    pub base_time: u64,
}

pub fn all_opts() -> Vec<Opt> {
    let mut v = vec![];
    let bases = [
        (Base::Explicit { at_moof: true }, true),
        (Base::Explicit { at_moof: false }, false),
        (Base::Explicit { at_moof: false }, true),
        (Base::DefaultBaseIsMoof, true),
        (Base::Neither, true),
        (Base::ExplicitWithMoofFlag { at_moof: false }, true),
        (Base::ExplicitWithMoofFlag { at_moof: false }, false),
        (Base::ExplicitWithMoofFlag { at_moof: true }, true),
    ];
    for (base, data_offset) in bases {
        for fdd in [false, true] {
            for before in [false, true] {
                for psd in [false, true] {
                    for cts in [None, Some(0u8), Some(1u8)] {
                        for (tfdt_v, base_time) in [(0u8, 0u64), (0, 5), (1, 0), (1, 5), (1, (1u64 << 32) + 5)] {
                            v.push(Opt { base, data_offset, fdd, before, psd, cts, tfdt_v, base_time });
                        }
                    }
                }
            }
        }
    }
    v
}

/// run length standing for "a track fragment without any run"
pub const NO_TRUN: usize = usize::MAX;

pub fn mk_run(track: u32, o: &Opt, n: usize, salt: u32) -> LRun {
    LRun {
        track_id: track,
        base: o.base,
        frag_default_duration: if o.fdd { Some(20 + salt) } else { None },
        per_sample_durations: o.psd,
        cts_version: o.cts,
        data_offset: o.data_offset,
        data_before_moof: o.before,
        tfdt_version: o.tfdt_v,
        base_time: o.base_time + salt as u64 * 1000,
        samples: (0..if n == NO_TRUN { 0 } else { n }).map(|i| LSample { size: 1 + ((i as u32 + salt) % 3), delta: 30 + i as u32 * 3 + salt, cts: if o.cts == Some(1) { -4 + i as i32 } else { 6 + i as i32 }, sync: i == 0 }).collect(),
        flags_mode: (salt % 3) as u8,
        no_trun: n == NO_TRUN,
    }
}

fn merge(a: &mut Local, b: Local) {
    a.evaluations += b.evaluations;
    a.transitions += b.transitions;
    a.validated += b.validated;
    a.nontrivial += b.nontrivial;
    for (k, v) in b.outcomes {
        *a.outcomes.entry(k).or_insert(0) += v;
    }
    a.violations.merge(b.violations);
    if a.samples.len() < 4 {
        a.samples.extend(b.samples);
    }
}

fn par<T: Sync + Send>(items: Vec<T>, l: &mut Local, f: impl Fn(&T, &mut Local) + Sync) {
    let r = items
        .par_iter()
        .fold(Local::default, |mut l, it| {
            f(it, &mut l);
            l
        })
        .reduce(Local::default, |mut a, b| {
            merge(&mut a, b);
            a
        });
    merge(l, r);
}

pub fn run(tier: Tier, seed: u64) -> i32 {
    let mut ev = Evidence::new("C09", tier, seed, "model_checking");
    let rep = Reporter::new("C09");
    let th = tier == Tier::Thorough;
    let mut l = Local::default();
    let opts = all_opts();
    let mut fams = vec![];

    // Family 1: one track, F fragments sharing one option tuple, every vector of run lengths, both movie defaults
    let fmax = if th { 4 } else { 3 };
    let rmax = if th { 3 } else { 2 };
    let mut f1 = 0u64;
    for f in 1..=fmax {
        let mut counts: Vec<Vec<usize>> = vec![vec![]];
        for _ in 0..f {
            counts = counts.iter().flat_map(|c| (0..=rmax).chain(std::iter::once(NO_TRUN)).map(move |n| { let mut d = c.clone(); d.push(n); d })).collect();
        }
        let mut items = vec![];
        for o in opts.iter() {
            for c in counts.iter() {
                for trex in [0u32, 9] {
                    for large in [false, true] {
                        items.push((*o, c.clone(), trex, large));
                    }
                }
            }
        }
        f1 += items.len() as u64;
        par(items, &mut l, |(o, c, trex, large), l| {
            let m = LFragMovie {
                movie_ts: 1000,
                tracks: vec![LFragTrack { id: 1, codec: Codec::Avc, timescale: 12800, trex_default_duration: *trex }],
                fragments: c.iter().enumerate().map(|(i, n)| vec![mk_run(1, o, *n, i as u32)]).collect(),
                mehd: if *trex == 0 { None } else { Some(0) },
                large_moof: *large,
                offsets_only: false,
                fillers: 0,
            };
            judge("C09", "1:uniform_options", &m, l);
        });
    }
    fams.push(json!({"family": "1: one track, F fragments with one shared option tuple (8 base/data-offset forms (incl. explicit base together with the default-base-is-moof flag) x frag default x data before/after moof x per-sample durations x cts none/v0/v1 x 5 tfdt forms = 960), every run-length vector (lengths 0..run_max, or a track fragment without a run), movie default 0/9, 32/64-bit moof header", "F_max": fmax, "run_max": rmax, "movies": f1}));

    // Family 2: one track, two fragments, options chosen independently per fragment (all pairs)
    let mut items = vec![];
    let stride = if th { 1 } else { 3 };
    for (i, a) in opts.iter().enumerate() {
        for (j, b) in opts.iter().enumerate() {
            if (i + j) % stride == 0 {
                items.push((*a, *b));
            }
        }
    }
    let f2 = items.len() as u64;
    par(items, &mut l, |(a, b), l| {
        let m = LFragMovie { movie_ts: 600, tracks: vec![LFragTrack { id: 1, codec: Codec::Aac, timescale: 48000, trex_default_duration: 9 }], fragments: vec![vec![mk_run(1, a, 2, 0)], vec![mk_run(1, b, 2, 1)]], mehd: Some(1), large_moof: false, offsets_only: false, fillers: 0 };
        judge("C09", "2:option_pairs", &m, l);
    });
    fams.push(json!({"family": "2: one track, two fragments, option tuples chosen independently (all pairs in thorough; the (i+j) mod 3 = 0 third in quick — a complete enumeration of that sub-lattice, not a sample)", "movies": f2}));

    // Family 3: two tracks, fragments holding one or both tracks in either order
    let shapes: Vec<Vec<u32>> = vec![vec![1], vec![2], vec![1, 2], vec![2, 1]];
    let small: Vec<Opt> = opts.iter().filter(|o| !o.before && o.tfdt_v == 1 && o.base_time == 5 && o.cts != Some(1)).cloned().collect();
    let mut items = vec![];
    let fm = if th { 4 } else { 3 };
    let mut seqs: Vec<Vec<usize>> = vec![vec![]];
    for _ in 0..fm {
        seqs = seqs.iter().flat_map(|s| (0..shapes.len()).map(move |k| { let mut d = s.clone(); d.push(k); d })).collect();
    }
    for s in seqs.iter() {
        for o in small.iter() {
            for (ta, tb) in [(9u32, 9u32), (9, 4), (0, 0)] {
                items.push((s.clone(), *o, ta, tb));
            }
        }
    }
    let f3 = items.len() as u64;
    par(items, &mut l, |(s, o, ta, tb), l| {
        let mut salt = 0;
        let m = LFragMovie {
            movie_ts: 1000,
            tracks: vec![LFragTrack { id: 1, codec: Codec::Hevc, timescale: 90000, trex_default_duration: *ta }, LFragTrack { id: 2, codec: Codec::Aac, timescale: 44100, trex_default_duration: *tb }],
            fragments: s
                .iter()
                .map(|k| {
                    shapes[*k]
                        .iter()
                        .map(|t| {
                            salt += 1;
                            mk_run(*t, o, 1 + (salt as usize % 2), salt)
                        })
                        .collect()
                })
                .collect(),
            mehd: None,
            large_moof: false,
                offsets_only: false,
                fillers: 0,
        };
        judge("C09", "3:two_tracks", &m, l);
    });
    fams.push(json!({"family": "3: two tracks; every sequence of fragment shapes [A],[B],[A,B],[B,A]; 40 option tuples; movie-level defaults (9,9),(9,4),(0,0)", "F": fm, "movies": f3}));

    // Family 4: per-sample sizes whose running sums pass 2^32 inside a run: counts and offsets only
    let n4 = if th { 5 } else { 4 };
    let mut items = vec![];
    let small4: Vec<Opt> = opts.iter().filter(|o| o.tfdt_v == 0 && o.base_time == 0 && o.cts.is_none() && !o.psd).cloned().collect();
    for n in 1..=n4 {
        let mut vs: Vec<Vec<u32>> = vec![vec![]];
        for _ in 0..n {
            vs = vs.iter().flat_map(|v| [0x9000_0000u32, 1, u32::MAX].iter().map(move |x| { let mut d = v.clone(); d.push(*x); d })).collect();
        }
        for v in vs {
            for o in small4.iter() {
                items.push((v.clone(), *o));
            }
        }
    }
    let f4 = items.len() as u64;
    par(items, &mut l, |(sizes, o), l| {
        let mut r0 = mk_run(1, o, sizes.len(), 0);
        for (s, z) in r0.samples.iter_mut().zip(sizes.iter()) {
            s.size = *z;
        }
        let r1 = mk_run(1, o, 2, 1);
        let m = LFragMovie { movie_ts: 1000, tracks: vec![LFragTrack { id: 1, codec: Codec::Avc, timescale: 12800, trex_default_duration: 9 }], fragments: vec![vec![r0], vec![r1]], mehd: None, large_moof: false, offsets_only: true, fillers: 0 };
        judge("C09", "4:sizes_summing_past_4GiB", &m, l);
    });
    fams.push(json!({"family": "4: one run with sizes in {0x90000000, 1, 0xffffffff}^N followed by a second fragment; 32 base/data-offset/default/placement tuples; sample_count and sample_offset only (payload not materialised)", "n_max": n4, "movies": f4}));

    // Family 5: uninterpreted boxes (uuid, free) among the fragment boxes: in the traf before the run / at its end, in the
    // moof before the trafs, at the top level between fragments; every non-empty subset of the four places
    let small5: Vec<Opt> = opts.iter().filter(|o| o.tfdt_v == 1 && o.base_time == 5 && o.cts != Some(0)).cloned().collect();
    let mut items = vec![];
    for fillers in 1u8..16 {
        for o in small5.iter() {
            for large in [false, true] {
                items.push((fillers, *o, large));
            }
        }
    }
    let f5 = items.len() as u64;
    par(items, &mut l, |(fillers, o, large), l| {
        let m = LFragMovie {
            movie_ts: 1000,
            tracks: vec![LFragTrack { id: 1, codec: Codec::Avc, timescale: 12800, trex_default_duration: 9 }, LFragTrack { id: 2, codec: Codec::Aac, timescale: 48000, trex_default_duration: 9 }],
            fragments: vec![vec![mk_run(1, o, 2, 0), mk_run(2, o, 1, 1)], vec![mk_run(2, o, 2, 2)], vec![mk_run(1, o, 1, 3), mk_run(2, o, NO_TRUN, 4)]],
            mehd: None,
            large_moof: *large,
            offsets_only: false,
            fillers: *fillers,
        };
        judge("C09", "5:uninterpreted_boxes_among_fragment_boxes", &m, l);
    });
    fams.push(json!({"family": "5: two tracks, three fragments; uuid / free boxes in the traf before the run, at the end of the traf, in the moof before the trafs, at the top level behind each fragment (15 non-empty subsets) x option tuples x 32/64-bit moof header", "movies": f5}));

    // Family 6: long fragment sequences: 33 and 257 fragments whose option tuple and run length follow a pattern of
    // period 1..2 over five tuples / run lengths {1, 2, 0, no run}; and single runs of 300 and 8200 samples with every set of per-sample columns
    {
        let five: Vec<Opt> = [0usize, 7, 123, 400, 959].iter().map(|&i| opts[i % opts.len()]).collect();
        let mut items: Vec<(Vec<usize>, usize)> = vec![];
        for period in 1..=2usize {
            for code in 0..five.len().pow(period as u32) {
                let pat: Vec<usize> = (0..period).map(|i| (code / five.len().pow(i as u32)) % five.len()).collect();
                for nf in [33usize, 257] {
                    items.push((pat.clone(), nf));
                }
            }
        }
        let f6 = items.len() as u64;
        par(items, &mut l, |(pat, nf), l| {
            let lens = [1usize, 2, 0, NO_TRUN, 3];
            let m = LFragMovie {
                movie_ts: 1000,
                tracks: vec![LFragTrack { id: 1, codec: Codec::Avc, timescale: 12800, trex_default_duration: 9 }],
                fragments: (0..*nf).map(|i| vec![mk_run(1, &five[pat[i % pat.len()]], lens[(i / 2 + pat[0]) % lens.len()], i as u32)]).collect(),
                mehd: None,
                large_moof: pat.len() == 2,
                offsets_only: false,
                fillers: 0,
            };
            judge("C09", "6:long_fragment_sequences", &m, l);
        });
        // every set of per-sample columns (durations y/n, composition offsets none/v0/v1; sizes always; flags by salt)
        let mut long_runs = vec![];
        for n in [300usize, 8200] {
            for o in opts.iter().filter(|o| o.base == Base::DefaultBaseIsMoof && !o.before && o.fdd && o.tfdt_v == 1 && o.base_time == 5) {
                long_runs.push((n, *o));
            }
        }
        let f6b = long_runs.len() as u64;
        par(long_runs, &mut l, |(n, o), l| {
            for salt in 0..3u32 {
                let m = LFragMovie { movie_ts: 1000, tracks: vec![LFragTrack { id: 1, codec: Codec::Aac, timescale: 48000, trex_default_duration: 9 }], fragments: vec![vec![mk_run(1, o, *n, salt)], vec![mk_run(1, o, 2, salt + 1)]], mehd: None, large_moof: false, offsets_only: false, fillers: 0 };
                judge("C09", "6:long_runs", &m, l);
            }
        });
        fams.push(json!({"family": "6: 33 and 257 fragments with option tuples / run lengths following patterns of period 1..2; single runs of 300 and 8200 samples with every set of per-sample columns followed by a second fragment", "movies": f6 + f6b}));
    }

    ev.set("evaluations", json!(l.evaluations));
    ev.set("states", json!(l.evaluations));
    ev.set("transitions", json!(l.transitions));
    ev.set("traces_validated_against_impl", json!(l.validated));
    ev.set("distinct_nontrivial", json!(l.nontrivial));
    ev.set("rule", json!("one case = one logical fragmented movie in one delivery mode (single stream; initialization segment + separately opened media segment; for movies of >= 2 fragments also the later fragments opened against a reader that already holds the first fragment, and against a reader derived for the first fragment's segment), reference-encoded and opened by the real reader; every id 0..N+1 and u32::MAX of every track is looked up and compared with the statement's formula evaluated on the logical movie; non-trivial = >= 2 samples and all lookups agreed"));
    ev.set("families", Value::Array(fams));
    ev.set("exhaustive", json!(true));
    ev.set("outcome_classes", Value::Object(l.outcomes.iter().map(|(k, v)| (k.clone(), json!(v))).collect()));
    let mut samples = l.samples.clone();
    if samples.is_empty() {
        samples.push(json!("(none)"));
    }
    ev.set("samples", Value::Array(samples));
    ev.assume("inputs stay inside the statement's premise: per-sample sizes present, tfdt present; at most one trun per traf (a traf without any run contributes no samples); 'neither base flag' is judged by the statement's formula (start of the enclosing moof)");
    let v = std::mem::take(&mut l.violations);
    v.drain_into(&rep);
    conclude(&ev, &rep)
}
