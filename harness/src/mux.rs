//! Driver for the real muxer and reader, plus the (boring) reference model of what was written.
//! Used by the history engine (E1): C01, C02, C13, C14, C15, C17.

use crate::common::*;
use mp4::*;
use serde_json::{json, Value};
use std::io::{Cursor, Read, Seek, Write};

#[derive(Clone, Copy, PartialEq, Eq, Debug)]
pub enum Kind {
    Avc,
    Hevc,
    Vp9,
    Aac,
    Ttxt,
}

pub const ALL_KINDS: [Kind; 5] = [Kind::Avc, Kind::Hevc, Kind::Vp9, Kind::Aac, Kind::Ttxt];

impl Kind {
    pub fn name(self) -> &'static str {
        match self {
            Kind::Avc => "avc",
            Kind::Hevc => "hevc",
            Kind::Vp9 => "vp9",
            Kind::Aac => "aac",
            Kind::Ttxt => "ttxt",
        }
    }
    pub fn from_name(s: &str) -> Kind {
        match s {
            "avc" => Kind::Avc,
            "hevc" => Kind::Hevc,
            "vp9" => Kind::Vp9,
            "aac" => Kind::Aac,
            _ => Kind::Ttxt,
        }
    }
    pub fn track_type(self) -> TrackType {
        match self {
            Kind::Avc | Kind::Hevc | Kind::Vp9 => TrackType::Video,
            Kind::Aac => TrackType::Audio,
            Kind::Ttxt => TrackType::Subtitle,
        }
    }
    pub fn media_type(self) -> MediaType {
        match self {
            Kind::Avc => MediaType::H264,
            Kind::Hevc => MediaType::H265,
            Kind::Vp9 => MediaType::VP9,
            Kind::Aac => MediaType::AAC,
            Kind::Ttxt => MediaType::TTXT,
        }
    }
}

#[derive(Clone, Debug)]
pub struct TrackSpec {
    pub kind: Kind,
    pub timescale: u32,
    pub language: String,
    pub width: u16,
    pub height: u16,
    pub sps: Vec<u8>,
    pub pps: Vec<u8>,
    pub aac: (u8, u8, u8, u32), // object type, freq index, channel config, bitrate
    /// None = the kind's natural track type
    pub track_type: Option<TrackType>,
}

impl TrackSpec {
    pub fn new(kind: Kind, timescale: u32) -> Self {
        TrackSpec {
            kind,
            timescale,
            language: "und".into(),
            width: 320,
            height: 240,
            sps: vec![0x67, 0x42, 0xc0, 0x1e, 0xd9, 0x00],
            pps: vec![0x68, 0xce, 0x3c, 0x80],
            aac: (2, 3, 2, 128_000),
            track_type: None,
        }
    }
    pub fn media_conf(&self) -> std::result::Result<MediaConfig, String> {
        use std::convert::TryFrom;
        Ok(match self.kind {
            Kind::Avc => MediaConfig::AvcConfig(AvcConfig {
                width: self.width,
                height: self.height,
                seq_param_set: self.sps.clone(),
                pic_param_set: self.pps.clone(),
            }),
            Kind::Hevc => MediaConfig::HevcConfig(HevcConfig { width: self.width, height: self.height }),
            Kind::Vp9 => MediaConfig::Vp9Config(Vp9Config { width: self.width, height: self.height }),
            Kind::Aac => MediaConfig::AacConfig(AacConfig {
                bitrate: self.aac.3,
                profile: AudioObjectType::try_from(self.aac.0).map_err(|e| e.to_string())?,
                freq_index: SampleFreqIndex::try_from(self.aac.1).map_err(|e| e.to_string())?,
                chan_conf: ChannelConfig::try_from(self.aac.2).map_err(|e| e.to_string())?,
            }),
            Kind::Ttxt => MediaConfig::TtxtConfig(TtxtConfig {}),
        })
    }
    pub fn track_config(&self) -> std::result::Result<TrackConfig, String> {
        Ok(TrackConfig {
            track_type: self.track_type.unwrap_or(self.kind.track_type()),
            timescale: self.timescale,
            language: self.language.clone(),
            media_conf: self.media_conf()?,
        })
    }
    pub fn to_json(&self) -> Value {
        json!({"kind": self.kind.name(), "timescale": self.timescale, "language": self.language, "width": self.width,
               "height": self.height, "sps": hex(&self.sps), "pps": hex(&self.pps), "aac": [self.aac.0, self.aac.1, self.aac.2, self.aac.3],
               "track_type": self.track_type.map(|t| t.to_string())})
    }
    pub fn from_json(v: &Value) -> Self {
        let mut t = TrackSpec::new(Kind::from_name(v["kind"].as_str().unwrap_or("avc")), v["timescale"].as_u64().unwrap_or(1000) as u32);
        if let Some(l) = v["language"].as_str() {
            t.language = l.into();
        }
        t.width = v["width"].as_u64().unwrap_or(320) as u16;
        t.height = v["height"].as_u64().unwrap_or(240) as u16;
        if let Some(s) = v["sps"].as_str() {
            t.sps = unhex(s);
        }
        if let Some(s) = v["pps"].as_str() {
            t.pps = unhex(s);
        }
        if let Some(a) = v["aac"].as_array() {
            t.aac = (a[0].as_u64().unwrap() as u8, a[1].as_u64().unwrap() as u8, a[2].as_u64().unwrap() as u8, a[3].as_u64().unwrap() as u32);
        }
        t.track_type = match v["track_type"].as_str() {
            Some("Video") => Some(TrackType::Video),
            Some("Audio") => Some(TrackType::Audio),
            Some("Subtitle") => Some(TrackType::Subtitle),
            _ => None,
        };
        t
    }
}

#[derive(Clone, Debug)]
pub struct MovieSpec {
    pub major: [u8; 4],
    pub minor: u32,
    pub compat: Vec<[u8; 4]>,
    pub timescale: u32,
    pub tracks: Vec<TrackSpec>,
}

impl MovieSpec {
    pub fn new(timescale: u32, tracks: Vec<TrackSpec>) -> Self {
        MovieSpec { major: *b"isom", minor: 512, compat: vec![*b"isom", *b"iso2", *b"avc1", *b"mp41"], timescale, tracks }
    }
    pub fn config(&self) -> Mp4Config {
        Mp4Config {
            major_brand: FourCC::from(self.major),
            minor_version: self.minor,
            compatible_brands: self.compat.iter().map(|b| FourCC::from(*b)).collect(),
            timescale: self.timescale,
        }
    }
    pub fn to_json(&self) -> Value {
        json!({"major": hex(&self.major), "minor": self.minor, "compat": self.compat.iter().map(|c| hex(c)).collect::<Vec<_>>(),
               "timescale": self.timescale, "tracks": self.tracks.iter().map(|t| t.to_json()).collect::<Vec<_>>()})
    }
    pub fn from_json(v: &Value) -> Self {
        let b4 = |s: &str| {
            let b = unhex(s);
            [b[0], b[1], b[2], b[3]]
        };
        MovieSpec {
            major: b4(v["major"].as_str().unwrap()),
            minor: v["minor"].as_u64().unwrap() as u32,
            compat: v["compat"].as_array().unwrap().iter().map(|c| b4(c.as_str().unwrap())).collect(),
            timescale: v["timescale"].as_u64().unwrap() as u32,
            tracks: v["tracks"].as_array().unwrap().iter().map(TrackSpec::from_json).collect(),
        }
    }
}

/// One `write_sample` call.
#[derive(Clone, Copy, Debug, PartialEq, Eq)]
pub struct Op {
    pub track: u32,
    pub size: u32,
    pub dur: u32,
    pub off: i32,
    pub sync: bool,
}

impl Op {
    pub fn to_json(&self) -> Value {
        json!([self.track, self.size, self.dur, self.off, self.sync])
    }
    pub fn from_json(v: &Value) -> Op {
        Op {
            track: v[0].as_u64().unwrap() as u32,
            size: v[1].as_u64().unwrap() as u32,
            dur: v[2].as_u64().unwrap() as u32,
            off: v[3].as_i64().unwrap() as i32,
            sync: v[4].as_bool().unwrap(),
        }
    }
}

pub fn hist_json(h: &[Op]) -> Value {
    Value::Array(h.iter().map(|o| o.to_json()).collect())
}

/// Deterministic payload of the `k`-th (0-based) sample written to `track`.  It depends only on
/// (seed, track, k, size) — not on the position in the history — so that deleting rejected calls from a
/// history leaves the accepted samples' bytes unchanged.  Every byte is non-zero and neighbouring samples
/// differ, so a sample read from a wrong offset or from a zero-filled buffer never compares equal.
pub fn payload(seed: u64, k: usize, track: u32, size: u32) -> Vec<u8> {
    let base = (seed as u32).wrapping_mul(37).wrapping_add(k as u32 * 29).wrapping_add(track.wrapping_mul(11));
    let mut v: Vec<u8> = (0..size).map(|i| (((base.wrapping_add(i.wrapping_mul(7))) % 251) + 1) as u8).collect();
    // every third sample begins like the framing of an elementary stream (ADTS sync word, Annex-B start codes, all
    // ones, all zero): a muxer stores sample bytes verbatim whatever they look like
    const PREFIXES: [&[u8]; 6] = [&[0xff, 0xf1, 0x4c, 0x80], &[0, 0, 0, 1], &[0, 0, 1], &[0xff, 0xf9], &[0xff, 0xff, 0xff, 0xff], &[0, 0, 0, 0]];
    if k % 3 == 1 {
        let p = PREFIXES[(k / 3 * 2 + track as usize + 5) % PREFIXES.len()];
        for (i, b) in p.iter().enumerate() {
            if i < v.len() {
                v[i] = *b;
            }
        }
    }
    v
}

/// What the reference model says a history wrote: per accepted track, the list of samples.
#[derive(Clone, Debug, PartialEq, Eq)]
pub struct RefSample {
    pub bytes: Vec<u8>,
    pub start: u64,
    pub dur: u32,
    pub off: i32,
    pub sync: bool,
}

pub fn reference(seed: u64, ntracks: usize, hist: &[Op]) -> Vec<Vec<RefSample>> {
    let mut out: Vec<Vec<RefSample>> = vec![vec![]; ntracks];
    let mut t_acc = vec![0u64; ntracks];
    for op in hist.iter() {
        if op.track == 0 || op.track as usize > ntracks {
            continue;
        }
        let t = op.track as usize - 1;
        let k = out[t].len();
        out[t].push(RefSample { bytes: payload(seed, k, op.track, op.size), start: t_acc[t], dur: op.dur, off: op.off, sync: op.sync });
        t_acc[t] += op.dur as u64;
    }
    out
}

impl TrackSpec {
    /// Statement-level model of add_track: a track whose timescale is 0, or an AVC track whose sequence parameter set
    /// is shorter than its 4-byte header or whose parameter sets exceed the 16-bit length of avcC, cannot be
    /// represented and may be refused; every other track must be accepted.
    pub fn model_may_refuse(&self) -> bool {
        self.timescale == 0 || (self.kind == Kind::Avc && (self.sps.len() < 4 || self.sps.len() > 65535 || self.pps.len() > 65535)) || self.track_config().is_err()
    }
}

/// A grid over the configuration space, for checks whose main dimension is something else (C02 validity, C15
/// determinism): brand lists with repeats, every kind x languages, every ordered kind pair, every AAC object type x
/// frequency indices x channel configurations, parameter-set lengths up to the 16-bit limit.
pub fn config_grid() -> Vec<MovieSpec> {
    let mut cfgs: Vec<MovieSpec> = vec![];
    let bvals: [[u8; 4]; 4] = [*b"isom", *b"mp41", [0x80, 0xff, 0xa9, 0xfe], [0, 0, 0, 0]];
    for n in 0..=4usize {
        for idx in 0..4usize.pow(n as u32) {
            let mut c = vec![];
            let mut i = idx;
            for _ in 0..n {
                c.push(bvals[i % 4]);
                i /= 4;
            }
            let mut m = MovieSpec::new(1000, vec![TrackSpec::new(Kind::Avc, 1000)]);
            m.compat = c;
            m.major = bvals[idx % 4];
            cfgs.push(m);
        }
    }
    for k in ALL_KINDS {
        for lang in ["und", "eng", "", "zzz", "\u{65e5}\u{672c}\u{8a9e}"] {
            let mut t = TrackSpec::new(k, 1000);
            t.language = lang.into();
            cfgs.push(MovieSpec::new(600, vec![t]));
        }
        for k2 in ALL_KINDS {
            cfgs.push(MovieSpec::new(1000, vec![TrackSpec::new(k, 1000), TrackSpec::new(k2, 48000)]));
        }
    }
    for aot in 1..=42u8 {
        for fi in [0u8, 3, 4, 12] {
            for ch in [1u8, 2, 7] {
                let mut t = TrackSpec::new(Kind::Aac, 48000);
                t.aac = (aot, fi, ch, 128000);
                cfgs.push(MovieSpec::new(1000, vec![t]));
            }
        }
    }
    for aot in [2u8, 5, 42] {
        for fi in 0..=12u8 {
            let mut t = TrackSpec::new(Kind::Aac, 44100);
            t.aac = (aot, fi, 2, 0);
            cfgs.push(MovieSpec::new(1000, vec![t]));
        }
    }
    for sl in [4usize, 5, 255, 256, 65535] {
        for pl in [0usize, 1, 255, 256, 65535] {
            let mut t = TrackSpec::new(Kind::Avc, 1000);
            t.sps = (0..sl).map(|i| if i == 0 { 0x67 } else if i == 1 { 66 } else { (i * 7 + 1) as u8 }).collect();
            t.pps = (0..pl).map(|i| (i * 13 + 5) as u8).collect();
            cfgs.push(MovieSpec::new(1000, vec![t, TrackSpec::new(Kind::Aac, 44100)]));
        }
    }
    cfgs
}

/// Two or three small histories for a movie of `config_grid`.
pub fn grid_histories(m: &MovieSpec) -> Vec<Vec<Op>> {
    let ts = m.tracks[0].timescale;
    let mut hs: Vec<Vec<Op>> = vec![vec![], vec![Op { track: 1, size: 3, dur: ts / 2, off: 0, sync: true }, Op { track: 1, size: 1, dur: ts, off: 2, sync: false }]];
    if m.tracks.len() == 2 {
        hs.push(vec![Op { track: 2, size: 2, dur: 1024, off: 0, sync: true }, Op { track: 1, size: 3, dur: ts, off: 0, sync: true }, Op { track: 2, size: 1, dur: 1024, off: 0, sync: true }]);
    }
    hs
}

/// Indices (into movie.tracks) of the add_track calls the muxer accepted.
pub fn accepted_tracks(calls: &[std::result::Result<(), String>], nspecs: usize) -> Vec<usize> {
    (0..nspecs).filter(|i| calls.get(1 + i).map(|r| r.is_ok()).unwrap_or(false)).collect()
}

/// The sub-history of calls the muxer accepted (`calls` as returned by `mux_into` for `ntracks` add_track calls).
pub fn accepted_ops(calls: &[std::result::Result<(), String>], ntracks: usize, hist: &[Op]) -> Vec<Op> {
    hist.iter().enumerate().filter(|(i, _)| calls.get(1 + ntracks + i).map(|r| r.is_ok()).unwrap_or(false)).map(|(_, o)| *o).collect()
}

/// Does the statement-level model allow the muxer to refuse this write on a valid track?  Only when the track's
/// duration in movie-timescale units would no longer fit in 64 bits.
pub fn model_may_reject(movie: &MovieSpec, accepted_so_far: &[Op], op: &Op) -> bool {
    let t = movie.tracks.get(op.track as usize - 1).map(|t| t.timescale).unwrap_or(0) as u128;
    if t == 0 {
        return true;
    }
    let sum: u128 = accepted_so_far.iter().filter(|o| o.track == op.track).map(|o| o.dur as u128).sum::<u128>() + op.dur as u128;
    sum * movie.timescale as u128 / t > u64::MAX as u128
}

#[derive(Debug)]
pub struct MuxOut {
    pub bytes: Vec<u8>,
    /// Result of every call in order: write_start, add_track*, write_sample*, write_end.
    pub calls: Vec<std::result::Result<(), String>>,
}

/// Run the real muxer on `hist` over `w`.  A panic is reported as Err(panic message); the position
/// of the failing call is included.
pub fn mux_into<W: Write + Seek>(w: W, seed: u64, movie: &MovieSpec, hist: &[Op]) -> std::result::Result<(W, Vec<std::result::Result<(), String>>), String> {
    guard(move || {
        let mut calls = vec![];
        let cfg = movie.config();
        let mut wr = match Mp4Writer::write_start(w, &cfg) {
            Ok(w) => {
                calls.push(Ok(()));
                w
            }
            Err(e) => return Err(format!("write_start: {}", e)),
        };
        for t in movie.tracks.iter() {
            match t.track_config() {
                Ok(tc) => calls.push(wr.add_track(&tc).map_err(|e| e.to_string())),
                Err(e) => calls.push(Err(e)),
            }
        }
        let mut written = vec![0usize; movie.tracks.len()];
        for op in hist.iter() {
            // payload index = number of samples the muxer has ACCEPTED on that track so far, so that replaying only the
            // accepted calls of a history feeds the muxer the very same samples
            let valid = op.track >= 1 && op.track as usize <= written.len();
            let k = if valid { written[op.track as usize - 1] } else { 0 };
            let s = Mp4Sample {
                start_time: 0,
                duration: op.dur,
                rendering_offset: op.off,
                is_sync: op.sync,
                bytes: Bytes::from(payload(seed, k, op.track, op.size)),
            };
            let r = wr.write_sample(op.track, &s).map_err(|e| format!("{:?}", e));
            if r.is_ok() && valid {
                written[op.track as usize - 1] += 1;
            }
            calls.push(r);
        }
        calls.push(wr.write_end().map_err(|e| format!("{:?}", e)));
        Ok((wr.into_writer(), calls))
    })
    .map_err(|p| format!("panic: {}", short_loc(&p)))?
}

pub fn mux(seed: u64, movie: &MovieSpec, hist: &[Op]) -> std::result::Result<MuxOut, String> {
    let (c, calls) = mux_into(Cursor::new(Vec::new()), seed, movie, hist)?;
    Ok(MuxOut { bytes: c.into_inner(), calls })
}

#[derive(Clone, Debug, PartialEq, Eq)]
pub enum Got {
    Some(RefSample),
    None,
    Err(String),
    Panic(String),
}

impl Got {
    pub fn to_json(&self) -> Value {
        match self {
            Got::Some(s) => json!({"bytes": hex(&s.bytes[..s.bytes.len().min(16)]), "len": s.bytes.len(), "start": s.start, "dur": s.dur, "off": s.off, "sync": s.sync}),
            Got::None => json!("None"),
            Got::Err(e) => json!({ "err": e }),
            Got::Panic(e) => json!({ "panic": e }),
        }
    }
}

pub fn ref_json(s: &RefSample) -> Value {
    Got::Some(s.clone()).to_json()
}

pub fn read_one<R: Read + Seek>(r: &mut Mp4Reader<R>, track: u32, id: u32) -> Got {
    match guard(|| r.read_sample(track, id)) {
        Ok(Ok(Some(s))) => Got::Some(RefSample { bytes: s.bytes.to_vec(), start: s.start_time, dur: s.duration, off: s.rendering_offset, sync: s.is_sync }),
        Ok(Ok(None)) => Got::None,
        Ok(Err(e)) => Got::Err(format!("{:?}", e)),
        Err(p) => Got::Panic(short_loc(&p)),
    }
}

pub fn open(bytes: &[u8]) -> std::result::Result<Mp4Reader<Cursor<&[u8]>>, String> {
    match guard(|| Mp4Reader::read_header(Cursor::new(bytes), bytes.len() as u64)) {
        Ok(Ok(r)) => Ok(r),
        Ok(Err(e)) => Err(format!("{:?}", e)),
        Err(p) => Err(format!("panic: {}", short_loc(&p))),
    }
}

pub fn sorted_track_ids<R: Read + Seek>(r: &Mp4Reader<R>) -> Vec<u32> {
    let mut ids: Vec<u32> = r.tracks().keys().copied().collect();
    ids.sort();
    ids
}
